package solver

import (
	"strings"

	"github.com/crillab/gophersat/zzvp"
)

func vpProblemCost(pb *Problem, a int) int {
	c := 0
	for i, l := range pb.minLits {
		w := 1
		if pb.minWeights != nil {
			w = pb.minWeights[i]
		}
		c += zzvp.Ite(vpLitTrue(int(l.Int()), a), w, 0)
	}
	return c
}

// vpSolverHolds: the constraints a solver currently holds (original and
// learned constraints plus top-level bindings) under assignment a.
func vpSolverHolds(s *Solver, a int) bool {
	r := true
	for _, c := range s.wl.origClauses {
		r = zzvp.And(r, vpClauseHoldsA(c, a))
	}
	for v, b := range s.model {
		if b == 1 || b == -1 {
			r = zzvp.And(r, zzvp.Eqv(vpBit(a, v+1), b > 0))
		}
	}
	return r
}

// VP_C18_print_roundtrip: printed problems read back as equivalent problems.
func VP_C18_print_roundtrip() {
	zzvp.IntMode(true)
	n := zzvp.Param("n", 3)
	kind := zzvp.Choose("kind", 3) // 0 CNF, 1 cardinality, 2 PB
	var pb *Problem
	switch kind {
	case 0:
		cnf, _ := vpSymCNF(n, zzvp.Param("m", 2), zzvp.Param("k", 2))
		pb = ParseSliceNb(cnf, n)
	case 1:
		lits := vpSkeletonLits(n)
		d := zzvp.Int("atleast", 1, n)
		cs := []CardConstr{{Lits: lits, AtLeast: d}}
		if zzvp.Choose("unit", 2) == 1 {
			cs = append(cs, AtLeast1(zzvp.Ite(zzvp.Bool("uneg"), -1, 1)))
		}
		pb = ParseCardConstrs(cs)
	default:
		lits := vpSkeletonLits(n)
		ws := make([]int, n)
		for i := range ws {
			ws[i] = zzvp.Int("w", 1, zzvp.Param("W", 3))
		}
		d := zzvp.Int("d", 1, zzvp.Param("D", 6))
		cs := []PBConstr{GtEq(lits, ws, d)}
		if zzvp.Choose("unit", 2) == 1 {
			cs = append(cs, PropClause(zzvp.Ite(zzvp.Bool("uneg"), -1, 1)))
		}
		pb = ParsePBConstrs(cs)
	}
	if pb.Status == Unsat {
		zzvp.Assume(false) // nothing to print for a refuted problem
	}
	withCost := zzvp.Choose("cost", 2) == 1
	if withCost {
		kc := zzvp.Choose("kc", pb.NbVars+1)
		if kc == 0 {
			zzvp.Assume(false)
		}
		cl := make([]Lit, kc)
		cw := make([]int, kc)
		for i := range cl {
			cl[i] = IntToLit(int32(zzvp.Ite(zzvp.Bool("cneg"), -(i + 1), i+1)))
			cw[i] = zzvp.Int("cw", zzvp.Param("CWlo", 0), zzvp.Param("CW", 2))
		}
		pb.SetCostFunc(cl, cw)
	}
	nv := pb.NbVars
	a := zzvp.Int("a", 0, (1<<uint(n))-1)
	want := vpProblemHolds(pb, a)
	wantCost := vpProblemCost(pb, a)
	route := zzvp.Choose("route", 4)
	var text string
	var pb2 *Problem
	var err error
	switch route {
	case 0: // DIMACS (clause problems only)
		if kind != 0 {
			zzvp.Assume(false)
		}
		text = pb.CNF()
		pb2, err = ParseCNF(strings.NewReader(text))
		zzvp.Reach("cnf")
	case 1:
		text = pb.PBString()
		pb2, err = ParseOPB(strings.NewReader(text))
		zzvp.Reach("opb")
	default:
		s := New(pb)
		if route == 3 {
			s.Solve()
			zzvp.Reach("solver-opb-after-solve")
		} else {
			zzvp.Reach("solver-opb")
		}
		want = vpSolverHolds(s, a)
		text = s.PBString()
		pb2, err = ParseOPB(strings.NewReader(text))
	}
	zzvp.Obs("text", text)
	zzvp.Assert(err == nil, "the printed problem is rejected by the parser of its own format")
	if err != nil {
		return
	}
	zzvp.Assert(pb2.NbVars <= nv, "the re-read problem has more variables than the original")
	zzvp.Assert(zzvp.Eqv(vpProblemHolds(pb2, a), want), "the re-read problem does not have the models of the printed one")
	if route != 0 {
		zzvp.Assert(vpProblemCost(pb2, a) == wantCost, "the re-read problem gives a model a different cost")
	}
}

// VP_C18_solver_print_skeleton: Solver.PBString after a Solve that learned
// clauses (CNF skeletons with symbolic signs) re-read by ParseOPB.
func VP_C18_solver_print_skeleton() {
	zzvp.IntMode(true)
	sk := vpCDCLSkeletons[zzvp.Choose("skeleton", zzvp.Param("nskel", len(vpCDCLSkeletons)))]
	maxSym := zzvp.Param("maxsigns", 8)
	n, cnt := 0, 0
	var cnf, orig [][]int
	for _, c := range sk {
		a, b := make([]int, len(c)), make([]int, len(c))
		for i, l := range c {
			if v := vpAbs(l); v > n {
				n = v
			}
			x := l
			if cnt < maxSym {
				x = zzvp.Ite(zzvp.Bool("flip"), -l, l)
				cnt++
			}
			a[i], b[i] = x, x
		}
		cnf, orig = append(cnf, a), append(orig, b)
	}
	s := New(ParseSliceNb(cnf, n))
	vpSteer(s)
	if s.Solve() != Sat {
		zzvp.Reach("unsat")
		return // a refuted solver has nothing meaningful to print
	}
	if s.Stats.NbLearned > 0 {
		zzvp.Reach("learned")
	}
	text := s.PBString()
	pb2, err := ParseOPB(strings.NewReader(text))
	zzvp.Obs("text", text)
	zzvp.Assert(err == nil, "the printed solver state is rejected by ParseOPB")
	if err != nil {
		return
	}
	a := zzvp.Int("a", 0, (1<<uint(n))-1)
	zzvp.Assert(zzvp.Eqv(vpProblemHolds(pb2, a), vpCNFHolds(orig, a)), "the re-read solver state does not have the models of the problem")
	zzvp.Reach("solver-opb-after-solve")
}
