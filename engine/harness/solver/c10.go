package solver

import "github.com/crillab/gophersat/zzvp"

// VP_C10_assume_rounds: rounds of Assume;Solve against formula AND this round's assumptions.
func VP_C10_assume_rounds() {
	zzvp.IntMode(true)
	n := zzvp.Param("n", 2)
	_, orig := vpSymCNF(n, zzvp.Param("m", 2), zzvp.Param("k", 2))
	c := make([][]int, len(orig))
	for i := range orig {
		c[i] = vpCopy(orig[i])
	}
	pb := ParseSliceNb(c, n)
	if pb.Status == Unsat {
		// assumptions on a problem that is already refuted: every round must say Unsat
		zzvp.Reach("base-unsat")
	}
	s := New(pb)
	rounds := zzvp.Choose("rounds", zzvp.Param("rounds", 2)) + 1
	for r := 0; r < rounds; r++ {
		ka := zzvp.Choose("ka", zzvp.Param("ka", 2)+1)
		as := make([]int, ka)
		lits := make([]Lit, ka)
		for i := range as {
			a := zzvp.Int("a", -n, n)
			zzvp.Assume(a != 0)
			as[i] = a
			lits[i] = IntToLit(int32(a))
		}
		// reference: formula AND assumptions of this round only
		full := append(append([][]int{}, orig...), vpUnits(as)...)
		spec := vpCNFSat(full, n)
		st := s.Assume(lits)
		zzvp.Assert(st == Indet || st == Unsat || st == Sat, "Assume returns a status")
		if st == Unsat {
			zzvp.Assert(zzvp.Not(spec), "Assume answered Unsat but formula and assumptions are satisfiable")
		}
		st2 := s.Solve()
		zzvp.Assert(st2 == Sat || st2 == Unsat, "Solve under assumptions answers Sat or Unsat")
		if st2 == Sat {
			zzvp.Reach("sat")
			zzvp.Assert(spec, "answered Sat but formula and current assumptions are unsatisfiable")
			model := s.Model()
			zzvp.Assert(vpModelHolds(full, model), "model violates the formula (with its unit clauses) or a current assumption")
		} else {
			zzvp.Reach("unsat")
			zzvp.Assert(zzvp.Not(spec), "answered Unsat but formula and current assumptions are satisfiable")
		}
	}
}

func vpUnits(ls []int) [][]int {
	r := make([][]int, len(ls))
	for i, l := range ls {
		r[i] = []int{l}
	}
	return r
}
