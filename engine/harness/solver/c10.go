package solver

import "github.com/crillab/gophersat/zzvp"

// VP_C10_assume_rounds: rounds of Assume;Solve against formula AND this round's assumptions.
func VP_C10_assume_rounds() {
	zzvp.IntMode(true)
	n := zzvp.Param("n", 2)
	_, orig := vpSymCNF(n, zzvp.Param("m", 2), zzvp.Param("k", 2))
	c := make([][]int, len(orig))
	for i := range orig {
		c[i] = vpCopy(orig[i])
	}
	pb := ParseSliceNb(c, n)
	if pb.Status == Unsat {
		// assumptions on a problem that is already refuted: every round must say Unsat
		zzvp.Reach("base-unsat")
	}
	s := New(pb)
	if pb.Status != Unsat {
		vpWatchLearned(s, n, func(a int) bool { return vpCNFHolds(orig, a) })
	}
	rounds := zzvp.Choose("rounds", zzvp.Param("rounds", 2)) + 1
	for r := 0; r < rounds; r++ {
		ka := zzvp.Choose("ka", zzvp.Param("ka", 2)+1)
		as := make([]int, ka)
		lits := make([]Lit, ka)
		for i := range as {
			a := zzvp.Int("a", -n, n)
			zzvp.Assume(a != 0)
			as[i] = a
			lits[i] = IntToLit(int32(a))
		}
		// reference: formula AND assumptions of this round only
		full := append(append([][]int{}, orig...), vpUnits(as)...)
		spec := vpCNFSat(full, n)
		st := s.Assume(lits)
		zzvp.Assert(st == Indet || st == Unsat || st == Sat, "Assume returns a status")
		if st == Unsat {
			zzvp.Assert(zzvp.Not(spec), "Assume answered Unsat but formula and assumptions are satisfiable")
		}
		st2 := s.Solve()
		zzvp.Assert(st2 == Sat || st2 == Unsat, "Solve under assumptions answers Sat or Unsat")
		if st2 == Sat {
			zzvp.Reach("sat")
			zzvp.Assert(spec, "answered Sat but formula and current assumptions are unsatisfiable")
			model := s.Model()
			zzvp.Assert(vpModelHolds(full, model), "model violates the formula (with its unit clauses) or a current assumption")
		} else {
			zzvp.Reach("unsat")
			zzvp.Assert(zzvp.Not(spec), "answered Unsat but formula and current assumptions are satisfiable")
		}
	}
}

func vpUnits(ls []int) [][]int {
	r := make([][]int, len(ls))
	for i, l := range ls {
		r[i] = []int{l}
	}
	return r
}

var vpAssumeSkeletons = [][][]int{
	{{2, 3}, {2, 3}, {1, 2, 3}},
	{{1, 2}, {2, 3}, {1, 3}, {1, 2, 3}},
	{{1, 2, 3}, {1, 2, 3}, {2, 3, 4}, {1, 4}},
}

// VP_C10_assume_skeleton: skeletons with ternary clauses (so that conflicts
// learn units and clauses during a round), symbolic signs, then rounds of
// symbolic assumptions; every initial phase assignment when steer=1.
func VP_C10_assume_skeleton() {
	zzvp.IntMode(true)
	var sk [][]int
	ns := len(vpAssumeSkeletons)
	k := zzvp.Choose("skeleton", zzvp.Param("nskel", ns+len(vpCDCLSkeletons)))
	if k < ns {
		sk = vpAssumeSkeletons[k]
	} else {
		sk = vpCDCLSkeletons[k-ns]
	}
	maxSym := zzvp.Param("maxsigns", 8)
	n, cnt := 0, 0
	var cnf, orig [][]int
	for _, c := range sk {
		a, b := make([]int, len(c)), make([]int, len(c))
		for i, l := range c {
			if v := vpAbs(l); v > n {
				n = v
			}
			x := l
			if cnt < maxSym {
				x = zzvp.Ite(zzvp.Bool("flip"), -l, l)
				cnt++
			}
			a[i], b[i] = x, x
		}
		cnf, orig = append(cnf, a), append(orig, b)
	}
	s := New(ParseSliceNb(cnf, n))
	vpSteer(s)
	vpWatchLearned(s, n, func(a int) bool { return vpCNFHolds(orig, a) })
	rounds := zzvp.Choose("rounds", zzvp.Param("rounds", 2)) + 1
	for r := 0; r < rounds; r++ {
		ka := zzvp.Choose("ka", zzvp.Param("ka", 2)+1)
		as := make([]int, ka)
		lits := make([]Lit, ka)
		for i := range as {
			a := zzvp.Int("a", -n, n)
			zzvp.Assume(a != 0)
			as[i] = a
			lits[i] = IntToLit(int32(a))
		}
		full := append(append([][]int{}, orig...), vpUnits(as)...)
		spec := vpCNFSat(full, n)
		s.Assume(lits)
		st := s.Solve()
		zzvp.Assert(st == Sat || st == Unsat, "Solve under assumptions answers Sat or Unsat")
		if st == Sat {
			zzvp.Reach("sat")
			zzvp.Assert(spec, "answered Sat but formula and current assumptions are unsatisfiable")
			zzvp.Assert(vpModelHolds(full, s.Model()), "model violates the formula or a current assumption")
		} else {
			zzvp.Reach("unsat")
			zzvp.Assert(zzvp.Not(spec), "answered Unsat but formula and current assumptions are satisfiable")
		}
		if s.Stats.NbUnitLearned > 0 {
			zzvp.Reach("unit-learned")
		}
	}
}

// vpWatchLearned installs the in-situ monitor of conflict analysis: every
// clause or unit it learns must be a consequence of the formula alone (learned
// clauses outlive the assumptions of the round they were learned in).
func vpWatchLearned(s *Solver, n int, holds func(a int) bool) {
	zzvp.ObserveReturn("(*github.com/crillab/gophersat/solver.Solver).learnClause",
		func(s2 *Solver, confl *Clause, lvl decLevel, learned *Clause, unit Lit) {
			if s2 != s {
				return
			}
			a := zzvp.Int("la", 0, (1<<uint(n))-1)
			if learned != nil {
				zzvp.Assert(zzvp.Implies(holds(a), vpClauseHoldsA(learned, a)), "a learned clause is not a consequence of the formula alone")
				zzvp.Reach("learned-clause")
			} else if unit != -1 {
				zzvp.Assert(zzvp.Implies(holds(a), vpLitTrue(int(unit.Int()), a)), "a learned unit is not a consequence of the formula alone")
				zzvp.Reach("learned-unit")
			}
		})
}
