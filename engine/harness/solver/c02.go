package solver

import "github.com/crillab/gophersat/zzvp"

// vpSymDistinctLits returns k symbolic literals over n variables, pairwise
// on distinct variables, and an untouched copy.
func vpSymDistinctLits(n, k int) (lits []int, orig []int) {
	lits = make([]int, k)
	orig = make([]int, k)
	for i := 0; i < k; i++ {
		l := zzvp.Int("l", -n, n)
		zzvp.Assume(l != 0)
		for j := 0; j < i; j++ {
			zzvp.Assume(zzvp.And(l != orig[j], l != -orig[j]))
		}
		lits[i], orig[i] = l, l
	}
	return
}

// vpCount: number of literals true under assignment a (as a term).
func vpCount(lits []int, a int) int {
	s := 0
	for _, l := range lits {
		s += zzvp.Ite(vpLitTrue(l, a), 1, 0)
	}
	return s
}

func vpWSum(lits, ws []int, a int) int {
	s := 0
	for i, l := range lits {
		s += zzvp.Ite(vpLitTrue(l, a), ws[i], 0)
	}
	return s
}

// model-based versions
func vpCountM(lits []int, model []bool) int {
	s := 0
	for _, l := range lits {
		s += zzvp.Ite(vpModelLit(l, model), 1, 0)
	}
	return s
}

func vpWSumM(lits, ws []int, model []bool) int {
	s := 0
	for i, l := range lits {
		s += zzvp.Ite(vpModelLit(l, model), ws[i], 0)
	}
	return s
}

// A reference constraint: sum(ws[i]*lits[i]) rel d, rel 0: >=, 1: <=, 2: ==.
type vpRef struct {
	lits []int
	ws   []int
	rel  int
	d    int
}

func vpRel(sum int, rel int, d int) bool {
	switch rel {
	case 0:
		return sum >= d
	case 1:
		return sum <= d
	}
	return sum == d
}

func vpRefsHold(refs []vpRef, a int) bool {
	r := true
	for _, c := range refs {
		r = zzvp.And(r, vpRel(vpWSum(c.lits, c.ws, a), c.rel, c.d))
	}
	return r
}

func vpRefsHoldM(refs []vpRef, model []bool) bool {
	r := true
	for _, c := range refs {
		r = zzvp.And(r, vpRel(vpWSumM(c.lits, c.ws, model), c.rel, c.d))
	}
	return r
}

func vpRefsSat(refs []vpRef, n int) bool {
	r := false
	for a := 0; a < 1<<uint(n); a++ {
		r = zzvp.Or(r, vpRefsHold(refs, a))
	}
	return r
}

func vpOnes(k int) []int {
	w := make([]int, k)
	for i := range w {
		w[i] = 1
	}
	return w
}

func vpCopy(x []int) []int { return append([]int(nil), x...) }

// vpSolveCheck solves pb and compares verdict and model with the reference.
func vpSolveCheck(pb *Problem, refs []vpRef, n int) {
	spec := vpRefsSat(refs, n)
	if pb.Status == Unsat {
		zzvp.Reach("parse-unsat")
		zzvp.Assert(zzvp.Not(spec), "parse-time Unsat but the constraints are satisfiable")
		return
	}
	vpAMO(pb)
	s := New(pb)
	vpCPSetup(s, n, func(a int) bool { return vpRefsHold(refs, a) })
	st := s.Solve()
	zzvp.Assert(st == Sat || st == Unsat, "status is Sat or Unsat")
	if st == Sat {
		zzvp.Reach("sat")
		zzvp.Assert(spec, "answered Sat but no assignment satisfies the constraints")
		model := s.Model()
		zzvp.Assert(vpRefsHoldM(refs, model), "model does not satisfy the constraints as written")
	} else {
		zzvp.Reach("unsat")
		zzvp.Assert(zzvp.Not(spec), "answered Unsat but the constraints are satisfiable")
	}
}

// VP_C02_card_e2e: cardinality constraints through ParseCardConstrs.
func VP_C02_card_e2e() {
	zzvp.IntMode(zzvp.Param("int", 1) == 1)
	n := zzvp.Param("n", 3)
	m := zzvp.Choose("m", zzvp.Param("m", 2)) + 1
	maxK := zzvp.Param("k", 3)
	kOther := zzvp.Param("kother", maxK)
	var constrs []CardConstr
	var refs []vpRef
	for j := 0; j < m; j++ {
		mk := maxK
		if j < m-1 {
			mk = kOther
		}
		var kind, k int
		if j < m-1 && zzvp.Param("unitfirst", 0) == 1 {
			kind, k = 0, 1
		} else {
			kind = zzvp.Choose("kind", 4)
			k = zzvp.Choose("k", mk) + 1
		}
		if k > n {
			k = n
		}
		lits, orig := vpSymDistinctLits(n, k)
		switch kind {
		case 0:
			constrs = append(constrs, AtLeast1(lits...))
			refs = append(refs, vpRef{orig, vpOnes(k), 0, 1})
		case 1:
			constrs = append(constrs, AtMost1(lits...))
			refs = append(refs, vpRef{orig, vpOnes(k), 1, 1})
		case 2:
			constrs = append(constrs, Exactly1(lits...)...)
			refs = append(refs, vpRef{orig, vpOnes(k), 2, 1})
		default:
			d := zzvp.Int("atleast", -1, k+1)
			constrs = append(constrs, CardConstr{Lits: lits, AtLeast: d})
			refs = append(refs, vpRef{orig, vpOnes(k), 0, d})
		}
	}
	pb := ParseCardConstrs(constrs)
	vpSolveCheck(pb, refs, n)
}

// VP_C02_pb_e2e: PB constraints through the public constructors and ParsePBConstrs.
func VP_C02_pb_e2e() {
	zzvp.IntMode(zzvp.Param("int", 1) == 1)
	n := zzvp.Param("n", 3)
	m := zzvp.Choose("m", zzvp.Param("m", 2)) + 1
	maxK := zzvp.Param("k", 3)
	W := zzvp.Param("W", 2)
	D := zzvp.Param("D", 4)
	kOther := zzvp.Param("kother", maxK)
	var constrs []PBConstr
	var refs []vpRef
	for j := 0; j < m; j++ {
		mk := maxK
		if j < m-1 {
			mk = kOther
		}
		var kind, k int
		if j < m-1 && zzvp.Param("unitfirst", 0) == 1 {
			kind, k = 0, 1 // a unit clause that triggers parse-time simplification of the next constraint
		} else {
			kind = zzvp.Choose("kind", 6)
			k = zzvp.Choose("k", mk) + 1
		}
		if k > n {
			k = n
		}
		lits, orig := vpSymDistinctLits(n, k)
		switch kind {
		case 0:
			constrs = append(constrs, PropClause(lits...))
			refs = append(refs, vpRef{orig, vpOnes(k), 0, 1})
		case 1:
			d := zzvp.Int("d", -1, k+1)
			constrs = append(constrs, AtLeast(lits, d))
			refs = append(refs, vpRef{orig, vpOnes(k), 0, d})
		case 2:
			d := zzvp.Int("d", -1, k+1)
			constrs = append(constrs, AtMost(lits, d))
			refs = append(refs, vpRef{orig, vpOnes(k), 1, d})
		default:
			ws := make([]int, k)
			ows := make([]int, k)
			for i := range ws {
				w := zzvp.Int("w", -W, W)
				ws[i], ows[i] = w, w
			}
			d := zzvp.Int("d", -D, D)
			switch kind {
			case 3:
				constrs = append(constrs, GtEq(lits, ws, d))
				refs = append(refs, vpRef{orig, ows, 0, d})
			case 4:
				constrs = append(constrs, LtEq(lits, ws, d))
				refs = append(refs, vpRef{orig, ows, 1, d})
			default:
				constrs = append(constrs, Eq(lits, ws, d)...)
				refs = append(refs, vpRef{orig, ows, 2, d})
			}
		}
	}
	pb := ParsePBConstrs(constrs)
	vpSolveCheck(pb, refs, n)
}

// vpPBConstrHolds: meaning of a PBConstr as ParsePBConstrs reads it.
func vpPBConstrHolds(c PBConstr, a int) bool {
	ws := c.Weights
	if ws == nil {
		ws = vpOnes(len(c.Lits))
	}
	return vpWSum(c.Lits, ws, a) >= c.AtLeast
}

// VP_C02_pb_norm: GtEq / LtEq / Eq / AtMost normalisation is an equivalence,
// for every assignment, with wide coefficient ranges (class A lemma).
func VP_C02_pb_norm() {
	zzvp.IntMode(zzvp.Param("int", 1) == 1)
	n := 4
	k := zzvp.Choose("k", zzvp.Param("k", 4)) + 1
	W := zzvp.Param("W", 1<<20)
	D := zzvp.Param("D", 1<<22)
	kind := zzvp.Choose("kind", 4)
	// literal skeleton: variable i+1 at position i, symbolic sign
	lits := make([]int, k)
	orig := make([]int, k)
	for i := range lits {
		l := zzvp.Ite(zzvp.Bool("neg"), -(i + 1), i+1)
		lits[i], orig[i] = l, l
	}
	ws := make([]int, k)
	ows := make([]int, k)
	for i := range ws {
		w := zzvp.Int("w", -W, W)
		ws[i], ows[i] = w, w
	}
	d := zzvp.Int("d", -D, D)
	// symbolic assignment over the 4 variables
	a := zzvp.Int("a", 0, (1<<uint(n))-1)
	var out []PBConstr
	var ref vpRef
	switch kind {
	case 0:
		out = []PBConstr{GtEq(lits, ws, d)}
		ref = vpRef{orig, ows, 0, d}
	case 1:
		out = []PBConstr{LtEq(lits, ws, d)}
		ref = vpRef{orig, ows, 1, d}
	case 2:
		out = Eq(lits, ws, d)
		ref = vpRef{orig, ows, 2, d}
	default:
		dd := zzvp.Int("dd", -1, k+1)
		out = []PBConstr{AtMost(lits, dd)}
		ref = vpRef{orig, vpOnes(k), 1, dd}
	}
	got := true
	for _, c := range out {
		zzvp.Assert(len(c.Weights) == 0 || len(c.Weights) == len(c.Lits), "as many weights as literals")
		for _, w := range c.Weights {
			zzvp.Assert(w > 0, "normalised weights are positive")
		}
		got = zzvp.And(got, vpPBConstrHolds(c, a))
	}
	want := vpRel(vpWSum(ref.lits, ref.ws, a), ref.rel, ref.d)
	zzvp.Assert(zzvp.Eqv(got, want), "normalised constraint(s) not equivalent to the relation as written")
	zzvp.Reach("norm")
}

// vpProblemHolds: meaning of a parsed *Problem under assignment a: status,
// unit literals, inferred bindings and every remaining constraint with its
// weights and cardinality.
func vpProblemHolds(pb *Problem, a int) bool {
	if pb.Status == Unsat {
		return false
	}
	r := true
	for _, u := range pb.Units {
		r = zzvp.And(r, vpLitTrue(int(u.Int()), a))
	}
	for v, b := range pb.Model {
		if b != 0 {
			r = zzvp.And(r, zzvp.Eqv(vpBit(a, v+1), b > 0))
		}
	}
	for _, c := range pb.Clauses {
		s := 0
		for i := 0; i < c.Len(); i++ {
			s += zzvp.Ite(vpLitTrue(int(c.Get(i).Int()), a), c.Weight(i), 0)
		}
		r = zzvp.And(r, s >= c.Cardinality())
	}
	return r
}

// vpSkeletonLits: variable i+1 at position i, symbolic sign.
func vpSkeletonLits(k int) []int {
	lits := make([]int, k)
	for i := range lits {
		lits[i] = zzvp.Ite(zzvp.Bool("neg"), -(i + 1), i+1)
	}
	return lits
}

// VP_C02_pb_units: one PB constraint over variables 1..n (symbolic signs,
// coefficients and degree) together with any set of unit constraints, before
// or after it: the parsed problem has exactly the models of the constraints
// as written (for every assignment), and solving agrees.
func VP_C02_pb_units() {
	zzvp.IntMode(true)
	n := zzvp.Param("n", 3)
	W := zzvp.Param("W", 3)
	D := zzvp.Param("D", 8)
	lits := vpSkeletonLits(n)
	olits := vpCopy(lits)
	ws := make([]int, n)
	for i := range ws {
		ws[i] = zzvp.Int("w", zzvp.Param("Wlo", 1), W)
	}
	ows := vpCopy(ws)
	d := zzvp.Int("d", -1, D)
	kind := zzvp.Choose("kind", 3)
	var main []PBConstr
	var refs []vpRef
	switch kind {
	case 0:
		main = []PBConstr{GtEq(lits, ws, d)}
		refs = append(refs, vpRef{olits, ows, 0, d})
	case 1:
		main = []PBConstr{LtEq(lits, ws, d)}
		refs = append(refs, vpRef{olits, ows, 1, d})
	default:
		main = Eq(lits, ws, d)
		refs = append(refs, vpRef{olits, ows, 2, d})
	}
	var units []PBConstr
	for v := 1; v <= n; v++ {
		switch zzvp.Choose("unit", 3) {
		case 1:
			units = append(units, PropClause(v))
			refs = append(refs, vpRef{[]int{v}, []int{1}, 0, 1})
		case 2:
			units = append(units, PropClause(-v))
			refs = append(refs, vpRef{[]int{-v}, []int{1}, 0, 1})
		}
	}
	var constrs []PBConstr
	if zzvp.Choose("order", 2) == 0 {
		constrs = append(append(constrs, units...), main...)
	} else {
		constrs = append(append(constrs, main...), units...)
	}
	pb := ParsePBConstrs(constrs)
	a := zzvp.Int("a", 0, (1<<uint(n))-1)
	zzvp.Assert(zzvp.Eqv(vpProblemHolds(pb, a), vpRefsHold(refs, a)), "parsed problem does not have the models of the constraints as written")
	zzvp.Reach("units-lemma")
	if zzvp.Param("solve", 1) == 1 {
		vpSolveCheck(pb, refs, n)
	}
}

// VP_C02_card_units: the same for one cardinality constraint through ParseCardConstrs.
func VP_C02_card_units() {
	zzvp.IntMode(true)
	n := zzvp.Param("n", 3)
	lits := vpSkeletonLits(n)
	olits := vpCopy(lits)
	d := zzvp.Int("atleast", -1, n+1)
	kind := zzvp.Choose("kind", 3)
	var main []CardConstr
	var refs []vpRef
	switch kind {
	case 0:
		main = []CardConstr{{Lits: lits, AtLeast: d}}
		refs = append(refs, vpRef{olits, vpOnes(n), 0, d})
	case 1:
		main = []CardConstr{AtMost1(lits...)}
		refs = append(refs, vpRef{olits, vpOnes(n), 1, 1})
	default:
		main = Exactly1(lits...)
		refs = append(refs, vpRef{olits, vpOnes(n), 2, 1})
	}
	var units []CardConstr
	for v := 1; v <= n; v++ {
		switch zzvp.Choose("unit", 3) {
		case 1:
			units = append(units, AtLeast1(v))
			refs = append(refs, vpRef{[]int{v}, []int{1}, 0, 1})
		case 2:
			units = append(units, AtLeast1(-v))
			refs = append(refs, vpRef{[]int{-v}, []int{1}, 0, 1})
		}
	}
	var constrs []CardConstr
	if zzvp.Choose("order", 2) == 0 {
		constrs = append(append(constrs, units...), main...)
	} else {
		constrs = append(append(constrs, main...), units...)
	}
	pb := ParseCardConstrs(constrs)
	a := zzvp.Int("a", 0, (1<<uint(n))-1)
	zzvp.Assert(zzvp.Eqv(vpProblemHolds(pb, a), vpRefsHold(refs, a)), "parsed problem does not have the models of the constraints as written")
	zzvp.Reach("units-lemma")
	if zzvp.Param("solve", 1) == 1 {
		vpSolveCheck(pb, refs, n)
	}
}

// ---- propagation fix-point lemma (class B): drive unifyLiteral with a
// symbolic sequence of decisions from the state New builds ----

var vpPairStructures = [][][]int{
	{{1, 2, 3, 4}, {1, 2, 4}},
	{{1, 2, 3, 4}, {2, 3, 4, 1}},
	{{5, 2, 1, 3, 4}, {3, 1, 5}},
	{{1, 2, 3}, {2, 3, 4}, {1, 4}},
	// 4: a binary constraint, then two weighted constraints over its variables and one more
	{{2, 3}, {4, 2, 1}, {3, 4, 2, 1}},
}

// vpPairWeights: coefficients and degree (last entry) of the constraints of a
// structure; structures without an entry get symbolic coefficients and degrees.
var vpPairWeights = map[int][][]int{
	4: {{1, 1, 1}, {2, 1, 2, 3}, {1, 2, 2, 2, 3}},
}

// vpAllSatisfied: with every variable assigned and no conflict reported, every
// constraint the solver holds must be satisfied (this is what soundness of a
// Sat answer rests on, whatever the decision order).
func vpAllSatisfied(s *Solver) {
	check := func(c *Clause) {
		sum := 0
		for i := 0; i < c.Len(); i++ {
			if s.litStatus(c.Get(i)) == Sat {
				sum += c.Weight(i)
			}
		}
		zzvp.Assert(sum >= c.Cardinality(), "all variables are assigned without conflict but a constraint is violated")
	}
	for _, c := range s.wl.origClauses {
		check(c)
	}
	for _, c := range s.wl.learned {
		check(c)
	}
}

// vpMissedPropagation only records (does not assert) that unit propagation on
// PB constraints is incomplete: that costs time, not correctness.
func vpMissedPropagation(s *Solver) {
	for _, c := range s.wl.origClauses {
		slack := -c.Cardinality()
		for i := 0; i < c.Len(); i++ {
			if s.litStatus(c.Get(i)) != Unsat {
				slack += c.Weight(i)
			}
		}
		for i := 0; i < c.Len(); i++ {
			if s.litStatus(c.Get(i)) == Indet && c.Weight(i) > slack {
				zzvp.Reach("missed-propagation")
				return
			}
		}
	}
}

func vpConflictOK(s *Solver, confl *Clause) {
	sum := 0
	for i := 0; i < confl.Len(); i++ {
		if s.litStatus(confl.Get(i)) != Unsat {
			sum += confl.Weight(i)
		}
	}
	zzvp.Assert(sum < confl.Cardinality(), "propagation returned a conflict constraint that is not falsified")
}

// vpLearnOK runs the conflict analysis on the conflict just reported and
// asserts its soundness for a symbolic assignment: whatever satisfies the
// problem satisfies the learned clause (or unit); an empty learned clause
// means no assignment satisfies the problem.
func vpLearnOK(s *Solver, confl *Clause, lvl decLevel, n int, holds func(a int) bool) {
	a := zzvp.Int("la", 0, (1<<uint(n))-1)
	learned, unit := s.learnClause(confl, lvl)
	switch {
	case learned != nil:
		r := false
		for i := 0; i < learned.Len(); i++ {
			r = zzvp.Or(r, vpLitTrue(int(learned.Get(i).Int()), a))
		}
		zzvp.Assert(zzvp.Implies(holds(a), r), "conflict analysis learned a clause that is not a consequence of the problem")
		zzvp.Reach("learned-clause")
	case unit != -1:
		zzvp.Assert(zzvp.Implies(holds(a), vpLitTrue(int(unit.Int()), a)), "conflict analysis learned a unit that is not a consequence of the problem")
		zzvp.Reach("learned-unit")
	default:
		zzvp.Assert(zzvp.Not(holds(a)), "conflict analysis derived the empty clause but the problem has a model")
		zzvp.Reach("learned-empty")
	}
}

// vpDrive decides variables in every order and polarity until all are
// assigned or a conflict is reported, checking the invariants on the way.
func vpDrive(s *Solver, n, steps int, holds func(a int) bool) {
	lvl := decLevel(2)
	for step := 0; step < steps; step++ {
		var free []int
		for v := 0; v < len(s.model); v++ {
			if s.model[v] == 0 {
				free = append(free, v)
			}
		}
		if len(free) == 0 {
			vpAllSatisfied(s)
			zzvp.Reach("total-assignment")
			return
		}
		v := free[zzvp.Choose("decide-var", len(free))]
		lit := Var(v).SignedLit(zzvp.Choose("decide-neg", 2) == 1)
		confl := s.unifyLiteral(lit, lvl)
		if confl != nil {
			vpConflictOK(s, confl)
			zzvp.Reach("conflict")
			if holds != nil {
				vpLearnOK(s, confl, lvl, n, holds)
			}
			return
		}
		vpMissedPropagation(s)
		lvl++
	}
	for v := 0; v < len(s.model); v++ {
		if s.model[v] == 0 {
			return
		}
	}
	vpAllSatisfied(s)
	zzvp.Reach("total-assignment")
}

// VP_C02_pb_fixpoint: several PB / cardinality constraints sharing variables
// (structure from a list, coefficients, degrees and some signs symbolic), then
// every sequence of up to `steps` decisions.
func VP_C02_pb_fixpoint() {
	zzvp.IntMode(true)
	sti := zzvp.Param("stfrom", 0) + zzvp.Choose("structure", zzvp.Param("nstruct", 4))
	st := vpPairStructures[sti]
	fixed := vpPairWeights[sti]
	W := zzvp.Param("W", 3)
	maxSym := zzvp.Param("maxsigns", 3)
	card := zzvp.Param("card", 0) == 1 // cardinality front end (unit coefficients)
	n, cnt := 0, 0
	var pbs []PBConstr
	var cds []CardConstr
	var refs []vpRef
	for ci, vars := range st {
		lits := make([]int, len(vars))
		ws := make([]int, len(vars))
		sum := 0
		for i, v := range vars {
			if v > n {
				n = v
			}
			lits[i] = v
			if cnt < maxSym {
				lits[i] = zzvp.Ite(zzvp.Bool("flip"), -v, v)
				cnt++
			}
			ws[i] = 1
			if fixed != nil {
				ws[i] = fixed[ci][i]
			} else if !card {
				ws[i] = zzvp.Int("w", 1, W)
			}
			sum += ws[i]
		}
		var d int
		if fixed != nil {
			d = fixed[ci][len(vars)] + zzvp.Choose("dshift", zzvp.Param("dshift", 1))
		} else {
			d = zzvp.Int("d", 1, len(vars)*W)
		}
		zzvp.Assume(d <= sum)
		refs = append(refs, vpRef{vpCopy(lits), vpCopy(ws), 0, d})
		if card {
			cds = append(cds, CardConstr{Lits: vpCopy(lits), AtLeast: d})
		} else {
			pbs = append(pbs, GtEq(vpCopy(lits), vpCopy(ws), d))
		}
	}
	var pb *Problem
	if card {
		pb = ParseCardConstrs(cds)
	} else {
		pb = ParsePBConstrs(pbs)
	}
	if pb.Status == Unsat {
		zzvp.Assert(zzvp.Not(vpRefsSat(refs, n)), "parse-time Unsat but the constraints are satisfiable")
		return
	}
	if zzvp.Param("e2e", 0) == 1 {
		vpSolveCheck(pb, refs, n) // end to end (with the C14 configuration when cp=1)
		return
	}
	s := New(pb)
	var holds func(a int) bool
	if zzvp.Param("learn", 0) == 1 {
		holds = func(a int) bool { return vpRefsHold(refs, a) }
	}
	vpDrive(s, n, zzvp.Param("steps", n+1), holds)
}
