package solver

import "github.com/crillab/gophersat/zzvp"

func vpCountSpec(n int, holds func(a int) bool) int {
	c := 0
	for a := 0; a < 1<<uint(n); a++ {
		c += zzvp.Ite(holds(a), 1, 0)
	}
	return c
}

// vpCountCheck: CountModels, Enumerate(nil) and Enumerate(ch) on three
// separately built problems, against the reference count.
func vpCountCheck(mk func() *Problem, n int, holds func(a int) bool, holdsM func(m []bool) bool) {
	want := vpCountSpec(n, holds)
	pb0 := mk()
	nv := pb0.NbVars
	// the count is over the variables the problem declares
	if nv < n {
		// undeclared trailing variables double the reference count per variable:
		// compare over the declared ones only
		want = vpCountSpec(nv, holds)
	}
	zzvp.Obs("nbvars", nv)
	s1 := New(pb0)
	c1 := s1.CountModels()
	zzvp.Assert(c1 == want, "CountModels differs from the number of satisfying assignments")
	s2 := New(mk())
	c2 := s2.Enumerate(nil, nil)
	zzvp.Assert(c2 == want, "Enumerate(nil) differs from the number of satisfying assignments")
	s3 := New(mk())
	ch := make(chan []bool, 1<<uint(n)+1)
	c3 := s3.Enumerate(ch, nil)
	zzvp.Assert(c3 == want, "Enumerate(ch) differs from the number of satisfying assignments")
	var got [][]bool
	for {
		m, ok := <-ch
		if !ok {
			break
		}
		got = append(got, m)
		if len(got) > 1<<uint(n) {
			break
		}
	}
	zzvp.Assert(len(got) == c3, "number of models delivered differs from the returned count")
	for i, m := range got {
		zzvp.Assert(len(m) == nv, "delivered model has one value per declared variable")
		zzvp.Assert(holdsM(m), "a delivered model does not satisfy the problem")
		for j := 0; j < i; j++ {
			same := true
			for k := range m {
				if m[k] != got[j][k] {
					same = false
				}
			}
			zzvp.Assert(!same, "a model was delivered twice")
		}
	}
	zzvp.Obs("count", c1)
	if c1 == 0 {
		zzvp.Reach("zero")
	} else if c1 == 1<<uint(nv) {
		zzvp.Reach("all")
	} else {
		zzvp.Reach("some")
	}
}

// VP_C05_count_cnf: counting and enumeration on CNF problems.
func VP_C05_count_cnf() {
	zzvp.IntMode(true)
	n := zzvp.Choose("n", zzvp.Param("n", 3)) + 1
	_, orig := vpSymCNF(n, zzvp.Param("m", 2), zzvp.Param("k", 2))
	mk := func() *Problem {
		c := make([][]int, len(orig))
		for i := range orig {
			c[i] = vpCopy(orig[i])
		}
		return ParseSliceNb(c, n)
	}
	vpCountCheck(mk, n,
		func(a int) bool { return vpCNFHolds(orig, a) },
		func(m []bool) bool { return vpModelHolds(orig, m) })
}

// VP_C05_count_pb: counting on one cardinality / PB constraint plus an optional unit.
func VP_C05_count_pb() {
	zzvp.IntMode(true)
	n := zzvp.Param("n", 3)
	k := zzvp.Choose("k", zzvp.Param("k", 3)) + 1
	if k > n {
		k = n
	}
	W := zzvp.Param("PW", 2)
	lits, _ := vpSymDistinctLits(n, k)
	ws := make([]int, k)
	for i := range ws {
		ws[i] = zzvp.Int("w", 1, W)
	}
	d := zzvp.Int("d", 0, k*W+1)
	refs := []vpRef{{vpCopy(lits), vpCopy(ws), 0, d}}
	withUnit := zzvp.Choose("unit", 2) == 1
	var u int
	if withUnit {
		u = zzvp.Int("u", -n, n)
		zzvp.Assume(u != 0)
		refs = append(refs, vpRef{[]int{u}, []int{1}, 0, 1})
	}
	card := zzvp.Choose("front", 2) == 1 // through ParseCardConstrs (unit weights) or ParsePBConstrs
	if card {
		for i := range ws {
			zzvp.Assume(ws[i] == 1)
		}
	}
	mk := func() *Problem {
		if card {
			cs := []CardConstr{{Lits: vpCopy(lits), AtLeast: d}}
			if withUnit {
				cs = append(cs, AtLeast1(u))
			}
			return ParseCardConstrs(cs)
		}
		cs := []PBConstr{GtEq(vpCopy(lits), vpCopy(ws), d)}
		if withUnit {
			cs = append(cs, PropClause(u))
		}
		return ParsePBConstrs(cs)
	}
	pbn := mk().NbVars
	vpCountCheck(mk, pbn,
		func(a int) bool { return vpRefsHold(refs, a) },
		func(m []bool) bool { return vpRefsHoldM(refs, m) })
}

// VP_C05_count_skeleton: counting and enumeration on fixed skeletons over 4-6
// variables with symbolic signs (models with several decisions, blocking
// clauses of 3 and more literals, backjumps in the middle of them).
func VP_C05_count_skeleton() {
	zzvp.IntMode(true)
	var sk [][]int
	nsk := zzvp.Param("nskel", len(vpCDCLSkeletons)+2)
	k := zzvp.Choose("skeleton", nsk)
	switch {
	case k < len(vpCDCLSkeletons):
		sk = vpCDCLSkeletons[k]
	case k == len(vpCDCLSkeletons):
		sk = vpRandom3SAT(6, 5, zzvp.Param("seed", 0)+1)
	default:
		sk = vpRandom3SAT(6, 7, zzvp.Param("seed", 0)+2)
	}
	maxSym := zzvp.Param("maxsigns", 8)
	n, cnt := 0, 0
	var orig [][]int
	for _, c := range sk {
		b := make([]int, len(c))
		for i, l := range c {
			if v := vpAbs(l); v > n {
				n = v
			}
			b[i] = l
			if cnt < maxSym {
				b[i] = zzvp.Concretize(zzvp.Ite(zzvp.Bool("flip"), -l, l))
				cnt++
			}
		}
		orig = append(orig, b)
	}
	mk := func() *Problem {
		c := make([][]int, len(orig))
		for i := range orig {
			c[i] = vpCopy(orig[i])
		}
		return ParseSliceNb(c, n)
	}
	want := 0
	for a := 0; a < 1<<uint(n); a++ {
		all := true
		for _, cl := range orig {
			ok := false
			for _, l := range cl {
				if ((a>>uint(vpAbs(l)-1))&1 == 1) == (l > 0) {
					ok = true
				}
			}
			if !ok {
				all = false
				break
			}
		}
		if all {
			want++
		}
	}
	c1 := New(mk()).CountModels()
	zzvp.Assert(c1 == want, "CountModels differs from the number of satisfying assignments")
	s3 := New(mk())
	ch := make(chan []bool, 1<<uint(n)+1)
	c3 := s3.Enumerate(ch, nil)
	zzvp.Assert(c3 == want, "Enumerate(ch) differs from the number of satisfying assignments")
	seen := map[int]bool{}
	for len(ch) > 0 {
		m := <-ch
		a := 0
		for i, b := range m {
			if b {
				a |= 1 << uint(i)
			}
		}
		zzvp.Assert(!seen[a], "a model was delivered twice")
		seen[a] = true
		for _, cl := range orig {
			ok := false
			for _, l := range cl {
				if m[vpAbs(l)-1] == (l > 0) {
					ok = true
				}
			}
			zzvp.Assert(ok, "a delivered model violates a clause")
		}
	}
	zzvp.Assert(len(seen) == want, "the set of delivered models is not the set of satisfying assignments")
	if want == 0 {
		zzvp.Reach("zero")
	} else {
		zzvp.Reach("some")
	}
}

// vpCardSkeleton: "at least k of n" over n = 5..6 variables written in a chosen
// order (every rotation of the ascending and of the descending order), every sign chosen, k in 2..n-1,
// optionally conjoined with an at-most-one over two of the variables and a
// clause over two others. These reach cardinality constraints with more
// literals than watches (k+1 < n), which smaller instances cannot.
func vpCardSkeleton() (n int, cs []CardConstr, refs []vpRef) {
	n = 5 + zzvp.Choose("n6", zzvp.Param("n6", 2))
	order := make([]int, n)
	rot, rev := zzvp.Choose("rot", n), zzvp.Choose("rev", 2) == 1
	for i := range order {
		order[i] = (i+rot)%n + 1
		if rev {
			order[i] = n + 1 - order[i]
		}
	}
	lits := make([]int, n)
	nsym := zzvp.Param("maxsigns", n)
	for i, v := range order {
		lits[i] = v
		if i < nsym && zzvp.Choose("flip", 2) == 1 {
			lits[i] = -v
		}
	}
	k := 2 + zzvp.Choose("k", n-2)
	cs = append(cs, CardConstr{Lits: vpCopy(lits), AtLeast: k})
	refs = append(refs, vpRef{vpCopy(lits), vpOnes(n), 0, k})
	switch zzvp.Choose("extra", zzvp.Param("extra", 3)) {
	case 1:
		cs = append(cs, AtMost1(1, n))
		refs = append(refs, vpRef{[]int{-1, -n}, []int{1, 1}, 0, 1})
	case 2:
		cs = append(cs, AtLeast1(-2, 3), AtMost1(1, n))
		refs = append(refs, vpRef{[]int{-2, 3}, []int{1, 1}, 0, 1}, vpRef{[]int{-1, -n}, []int{1, 1}, 0, 1})
	}
	return
}

func vpCopyCards(cs []CardConstr) []CardConstr {
	r := make([]CardConstr, len(cs))
	for i, c := range cs {
		r[i] = CardConstr{Lits: vpCopy(c.Lits), AtLeast: c.AtLeast}
	}
	return r
}

// VP_C05_count_card: counting and enumeration on the cardinality skeletons.
func VP_C05_count_card() {
	zzvp.IntMode(true)
	n, cs, refs := vpCardSkeleton()
	mk := func() *Problem { return ParseCardConstrs(vpCopyCards(cs)) }
	vpCountCheck(mk, n,
		func(a int) bool { return vpRefsHold(refs, a) },
		func(m []bool) bool { return vpRefsHoldM(refs, m) })
}

// VP_C02_card_skeleton: verdict and model on the cardinality skeletons.
func VP_C02_card_skeleton() {
	zzvp.IntMode(true)
	n, cs, refs := vpCardSkeleton()
	vpSolveCheck(ParseCardConstrs(vpCopyCards(cs)), refs, n)
}
