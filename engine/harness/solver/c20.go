package solver

import "github.com/crillab/gophersat/zzvp"

var vpStreamSkeletons = [][][]int{
	{{4, 1}, {-4, 3, 5}, {5, 2, 1}}, // found by search: three improving results with unit-free clauses
	{{1, 2}, {2, 3}},                // short streams
	{{1, 2, 3}},
}

// vpStreamProblem builds a CNF from a skeleton (first maxsigns signs symbolic)
// and a cost function over all variables.
func vpStreamProblem() (mk func() *Problem, n int, orig [][]int, cl, cw []int) {
	sk := vpStreamSkeletons[zzvp.Choose("skeleton", zzvp.Param("nskel", len(vpStreamSkeletons)))]
	maxSym := zzvp.Param("maxsigns", 3)
	cnt := 0
	for _, c := range sk {
		o := make([]int, len(c))
		for i, l := range c {
			v := l
			if v < 0 {
				v = -v
			}
			if v > n {
				n = v
			}
			if cnt < maxSym {
				o[i] = zzvp.Ite(zzvp.Bool("flip"), -l, l)
				cnt++
			} else {
				o[i] = l
			}
		}
		orig = append(orig, o)
	}
	for v := 1; v <= n; v++ {
		cl = append(cl, v)
		cw = append(cw, zzvp.Int("cw", zzvp.Param("Wlo", 1), zzvp.Param("W", 2)))
	}
	mk = func() *Problem {
		c := make([][]int, len(orig))
		for i := range orig {
			c[i] = vpCopy(orig[i])
		}
		pb := ParseSliceNb(c, n)
		pb.SetCostFunc(vpLits(cl), vpCopy(cw))
		return pb
	}
	return
}

// VP_C20_stream_optimal: Optimal with a result channel and a concurrent
// consumer, under every schedule at channel operations and every capacity.
func VP_C20_stream_optimal() {
	zzvp.IntMode(true)
	mk, n, orig, cl, cw := vpStreamProblem()
	s := New(mk())
	capacity := zzvp.Choose("capacity", zzvp.Param("maxcap", 2)+1)
	results := make(chan Result, capacity)
	done := make(chan Result, 1)
	zzvp.Preemptions(zzvp.Param("preempt", -1))
	zzvp.Schedule(zzvp.Param("schedule", 1))
	go func() {
		done <- s.Optimal(results, nil)
	}()
	var got []Result
	for r := range results {
		got = append(got, r)
		if len(got) > 64 {
			zzvp.Assert(false, "unbounded stream of results")
			return
		}
	}
	ret := <-done
	zzvp.Schedule(0)
	// the channel must be closed: a second receive returns immediately with ok == false
	_, ok := <-results
	zzvp.Assert(!ok, "result channel not closed")
	min := vpMin(n, func(a int) bool { return vpCNFHolds(orig, a) }, func(a int) int { return vpCostA(cl, cw, a) })
	if min == vpInf {
		zzvp.Reach("unsat")
		zzvp.Assert(ret.Status == Unsat, "no model exists but the returned status is not Unsat")
		zzvp.Assert(len(got) == 1 && got[0].Status == Unsat, "on an unsatisfiable problem exactly one Unsat result is delivered")
		return
	}
	zzvp.Assert(len(got) >= 1, "no result delivered on a satisfiable problem")
	if len(got) >= 3 {
		zzvp.Reach("three-results")
	}
	zzvp.Reach("sat")
	prev := vpInf
	for _, r := range got {
		zzvp.Assert(r.Status == Sat, "a delivered result is not Sat")
		zzvp.Assert(len(r.Model) == n, "a delivered model has a wrong length")
		zzvp.Assert(vpModelHolds(orig, r.Model), "a delivered model violates a constraint")
		zzvp.Assert(r.Weight == vpCostM(cl, cw, r.Model), "a delivered result announces a cost that is not the cost of its model")
		zzvp.Assert(r.Weight < prev, "costs do not strictly decrease along the stream")
		prev = r.Weight
	}
	last := got[len(got)-1]
	zzvp.Assert(ret.Status == last.Status && ret.Weight == last.Weight, "the returned result differs from the last delivered one")
	same := len(ret.Model) == len(last.Model)
	for i := range last.Model {
		if same && ret.Model[i] != last.Model[i] {
			same = false
		}
	}
	zzvp.Assert(same, "the returned model differs from the last delivered one")
	zzvp.Assert(ret.Weight == min, "the final cost is not the optimum")
}

// VP_C20_stream_enumerate: Enumerate with a model channel and a concurrent consumer.
func VP_C20_stream_enumerate() {
	zzvp.IntMode(true)
	n := zzvp.Param("n", 2)
	_, orig := vpSymCNF(n, zzvp.Param("m", 2), zzvp.Param("k", 2))
	c := make([][]int, len(orig))
	for i := range orig {
		c[i] = vpCopy(orig[i])
	}
	s := New(ParseSliceNb(c, n))
	capacity := zzvp.Choose("capacity", zzvp.Param("maxcap", 2)+1)
	models := make(chan []bool, capacity)
	done := make(chan int, 1)
	zzvp.Preemptions(zzvp.Param("preempt", -1))
	zzvp.Schedule(zzvp.Param("schedule", 1))
	go func() {
		done <- s.Enumerate(models, nil)
	}()
	var got [][]bool
	for m := range models {
		got = append(got, m)
		if len(got) > 64 {
			zzvp.Assert(false, "unbounded stream of models")
			return
		}
	}
	nb := <-done
	zzvp.Schedule(0)
	_, ok := <-models
	zzvp.Assert(!ok, "model channel not closed")
	want := vpCountSpec(n, func(a int) bool { return vpCNFHolds(orig, a) })
	zzvp.Assert(nb == want, "Enumerate returned a wrong count")
	zzvp.Assert(len(got) == nb, "number of delivered models differs from the count")
	for i, m := range got {
		zzvp.Assert(len(m) == n && vpModelHolds(orig, m), "a delivered model does not satisfy the problem")
		for j := 0; j < i; j++ {
			same := true
			for k := range m {
				if m[k] != got[j][k] {
					same = false
				}
			}
			zzvp.Assert(!same, "a model was delivered twice")
		}
	}
	zzvp.Reach("enumerated")
}
