package solver

import (
	"strconv"
	"strings"

	"github.com/crillab/gophersat/zzvp"
)

// ---- an independent RUP checker (shares no code with solver or explain) ----

func vpAbs(x int) int {
	if x < 0 {
		return -x
	}
	return x
}

// vpRUP: is clause c derivable from clauses by reverse unit propagation?
func vpRUP(clauses [][]int, n int, c []int) bool {
	val := make([]int, n+1)   // 0 unassigned, 1 true, -1 false
	set := func(l int) bool { // make l true; false on contradiction
		v := vpAbs(l)
		want := 1
		if l < 0 {
			want = -1
		}
		if val[v] == -want {
			return false
		}
		val[v] = want
		return true
	}
	for _, l := range c {
		if !set(-l) {
			return true // c is a tautology: trivially implied
		}
	}
	for {
		changed := false
		for _, cl := range clauses {
			unassigned, sat, last := 0, false, 0
			for _, l := range cl {
				v := vpAbs(l)
				switch {
				case val[v] == 0:
					if unassigned == 0 || last != l { // a clause is a set of literals
						unassigned++
					}
					last = l
				case (val[v] == 1) == (l > 0):
					sat = true
				}
			}
			if sat {
				continue
			}
			if unassigned == 0 {
				return true // conflict
			}
			if unassigned == 1 {
				if !set(last) {
					return true
				}
				changed = true
			}
		}
		if !changed {
			return false
		}
	}
}

// vpImplied: is c a logical consequence of clauses (brute force over n variables)?
func vpImplied(clauses [][]int, n int, c []int) bool {
	holds := func(cl []int, a int) bool {
		for _, l := range cl {
			if ((a>>uint(vpAbs(l)-1))&1 == 1) == (l > 0) {
				return true
			}
		}
		return false
	}
	for a := 0; a < 1<<uint(n); a++ {
		all := true
		for _, cl := range clauses {
			if !holds(cl, a) {
				all = false
				break
			}
		}
		if all && !holds(c, a) {
			return false
		}
	}
	return true
}

func vpParseLine(line string) ([]int, bool) {
	fs := strings.Fields(line)
	if len(fs) == 0 || fs[len(fs)-1] != "0" {
		return nil, false
	}
	var c []int
	for _, f := range fs[:len(fs)-1] {
		v, err := strconv.Atoi(f)
		if err != nil || v == 0 {
			return nil, false
		}
		c = append(c, v)
	}
	return c, true
}

// VP_C06_cert_e2e: certified solving; the certificate is replayed by vpRUP.
func VP_C06_cert_e2e() {
	maxN := zzvp.Param("n", 2)
	n := zzvp.Choose("n", maxN) + 1
	cnf, orig := vpSymCNF(n, zzvp.Param("m", 3), zzvp.Param("k", 2))
	spec := vpCNFSat(orig, n)
	pb := ParseSliceNb(cnf, n)
	// twin without certification, built from a copy
	c2 := make([][]int, len(orig))
	for i := range orig {
		c2[i] = vpCopy(orig[i])
	}
	twin := New(ParseSliceNb(c2, n))
	s := New(pb)
	s.Certified = true
	s.CertChan = make(chan string, 1024)
	if zzvp.Param("smalldb", 0) == 1 && zzvp.Choose("smalldb", 2) == 1 {
		s.wl.nbMax = 1
		twin.wl.nbMax = 1
	}
	vpSteer(s)
	st := s.Solve()
	stTwin := twin.Solve()
	zzvp.Assert(st == Sat || st == Unsat, "status is Sat or Unsat")
	zzvp.Assert(zzvp.Eqv(st == Sat, spec), "certified verdict is wrong")
	zzvp.Assert(zzvp.Eqv(stTwin == Sat, spec), "uncertified verdict is wrong")
	if st == Sat {
		zzvp.Assert(vpModelHolds(orig, s.Model()), "certified model does not satisfy the formula")
	}
	// concrete formula for the independent checker
	F := make([][]int, len(orig))
	for i, cl := range orig {
		F[i] = make([]int, len(cl))
		for j, l := range cl {
			F[i][j] = zzvp.Concretize(l)
		}
	}
	var lines []string
	for len(s.CertChan) > 0 {
		lines = append(lines, <-s.CertChan)
	}
	db := append([][]int{}, F...)
	sawEmpty := false
	for _, line := range lines {
		c, ok := vpParseLine(line)
		zzvp.Assert(ok, "certificate line is not a DIMACS clause")
		if !ok {
			return
		}
		for _, l := range c {
			zzvp.Assert(vpAbs(l) <= n, "certificate mentions an undeclared variable")
		}
		if st == Unsat {
			zzvp.Assert(vpRUP(db, n, c), "certificate line is not derivable by unit propagation from the formula and the earlier lines")
		} else {
			zzvp.Assert(vpImplied(F, n, c), "a clause emitted on a satisfiable formula is not a consequence of it")
		}
		if len(c) == 0 {
			sawEmpty = true
		}
		db = append(db, c)
		zzvp.Reach("line")
	}
	if st == Unsat {
		zzvp.Reach("unsat")
		zzvp.Assert(vpRUP(db, n, nil), "Unsat answer but the empty clause is not derivable by unit propagation from the formula and the certificate")
		if sawEmpty {
			zzvp.Reach("empty-line")
		}
	} else {
		zzvp.Reach("sat")
		zzvp.Assert(!sawEmpty, "empty clause emitted on a satisfiable formula")
	}
}
