package solver

import "github.com/crillab/gophersat/zzvp"

// vpSkeletons: variable positions of clause sets rich in binary clauses; the
// sign of every literal is symbolic.
var vpSkeletons = [][][]int{
	{{1, 2}, {1, 3}, {2, 3}},                               // 0 triangle
	{{1, 2}, {1, 3}, {1, 4}, {2, 3}, {2, 4}, {3, 4}},       // 1 K4
	{{1, 2}, {1, 3}, {1, 4}, {2, 3}, {2, 4}},               // 2 K4 minus an edge
	{{2, 4}, {1, 2}, {1, 3}, {1, 4}, {2, 3}},               // 3 K4 minus an edge, other order
	{{1, 2}, {1, 3}, {2, 3}, {2, 4}, {3, 4}},               // 4 two triangles sharing an edge
	{{1, 2}, {1, 3}, {2, 3}, {1, 2}},                       // 5 triangle + repeated binary clause
	{{1, 2}, {1, 3}, {2, 3}, {3, 4}, {1, 2, 3}},            // 6 triangle + pendant + ternary clause
	{{1, 2, 3}, {1, 2}, {1, 3}, {2, 3}, {4, 5}},            // 7 clique preceded and followed by unrelated clauses
	{{1, 2}, {1, 3}, {2, 3}, {4, 5}, {4, 6}, {5, 6}},       // 8 two disjoint triangles
	{{1, 2}, {3, 4}, {1, 3}, {2, 3}, {1, 4}},               // 9 incomplete clique, interleaved order
	{{1, 2}, {1, 3}},                                       // 10 star (no clique)
	{{4, 5}, {1, 2}, {1, 3}, {2, 3}, {1, 2, 3, 4}, {5, 6}}, // 11 clique in the middle
}

// VP_C15_amo_equiv: DetectAtMostOne keeps the set of models (for every assignment).
func VP_C15_amo_equiv() {
	zzvp.IntMode(true)
	var cnf [][]int
	n := 0
	if sk := zzvp.Param("skeleton", -1); sk >= 0 || zzvp.Param("skeletons", 0) == 1 {
		if sk < 0 {
			sk = zzvp.Choose("skeleton", len(vpSkeletons))
		}
		maxSym := zzvp.Param("maxsigns", 12)
		cnt := 0
		for _, cl := range vpSkeletons[sk] {
			c := make([]int, len(cl))
			for i, v := range cl {
				if v > n {
					n = v
				}
				if cnt < maxSym {
					c[i] = zzvp.Ite(zzvp.Bool("neg"), -v, v)
					cnt++
				} else {
					c[i] = -v
				}
			}
			cnf = append(cnf, c)
		}
		if zzvp.Param("dup", 0) == 1 {
			// optionally repeat one of the clauses (same literals), right after the original or at the end
			if d := zzvp.Choose("dup", len(cnf)+1); d > 0 {
				c := vpCopy(cnf[d-1])
				if zzvp.Choose("dup-at-end", 2) == 1 {
					cnf = append(cnf, c)
				} else {
					cnf = append(cnf[:d], append([][]int{c}, cnf[d:]...)...)
				}
			}
		}
	} else {
		n = zzvp.Param("n", 3)
		cnf, _ = vpSymCNF(n, zzvp.Param("m", 3), zzvp.Param("k", 2))
	}
	orig := make([][]int, len(cnf))
	for i := range cnf {
		orig[i] = vpCopy(cnf[i])
	}
	pb := ParseSliceNb(cnf, n)
	if pb.Status == Unsat {
		zzvp.Assume(false)
	}
	nbVars := pb.NbVars
	nbUnits := len(pb.Units)
	pb.DetectAtMostOne()
	zzvp.Assert(pb.NbVars == nbVars, "DetectAtMostOne changed the number of variables")
	zzvp.Assert(len(pb.Units) == nbUnits, "DetectAtMostOne changed the unit literals")
	a := zzvp.Int("a", 0, (1<<uint(n))-1)
	zzvp.Assert(zzvp.Eqv(vpProblemHolds(pb, a), vpCNFHolds(orig, a)), "the problem after at-most-one detection does not have the models of the input")
	hasCard := false
	for _, c := range pb.Clauses {
		if c.Cardinality() > 1 {
			hasCard = true
		}
	}
	if hasCard {
		zzvp.Reach("card-detected")
	} else {
		zzvp.Reach("nothing-detected")
	}
}
