package solver

import "github.com/crillab/gophersat/zzvp"

// vpClauseHoldsA: a *Clause (clause, cardinality or PB constraint) under assignment a.
func vpClauseHoldsA(c *Clause, a int) bool {
	s := 0
	for i := 0; i < c.Len(); i++ {
		s += zzvp.Ite(vpLitTrue(int(c.Get(i).Int()), a), c.Weight(i), 0)
	}
	return s >= c.Cardinality()
}

// vpCPSetup applies the cutting-planes configuration of a C14 run to a
// solver and installs the in-situ monitor: every constraint learned by the
// cutting-planes analysis, and every unit it propagates at top level, must be
// a consequence of the problem (asserted for a symbolic assignment).
func vpCPSetup(s *Solver, n int, holds func(a int) bool) {
	if zzvp.Param("cp", 0) != 1 {
		return
	}
	s.CuttingPlanes = zzvp.Bool("cp")
	if holds == nil {
		return
	}
	zzvp.ObserveReturn("(*github.com/crillab/gophersat/solver.Solver).cuttingPlanes",
		func(s2 *Solver, confl *Clause, lvl decLevel, learned *Clause, propagated []Lit, newLvl decLevel) {
			if s2 != s {
				return
			}
			a := zzvp.Int("cpa", 0, (1<<uint(n))-1)
			if newLvl == -1 {
				zzvp.Assert(zzvp.Not(holds(a)), "cutting planes derived a contradiction although the problem has a model")
				return
			}
			if learned != nil && newLvl != 1 {
				zzvp.Assert(zzvp.Implies(holds(a), vpClauseHoldsA(learned, a)), "a constraint learned by cutting planes is not a consequence of the problem")
				zzvp.Reach("cp-learned")
			}
			if newLvl == 1 {
				for _, u := range propagated {
					if u != -1 {
						zzvp.Assert(zzvp.Implies(holds(a), vpLitTrue(int(u.Int()), a)), "a unit derived by cutting planes is not a consequence of the problem")
					}
				}
				zzvp.Reach("cp-unit")
			}
		})
	zzvp.Observe("(*github.com/crillab/gophersat/solver.pbSet).divideBy", func(pb *pbSet, coeff int) {
		zzvp.Assert(pb.card >= 1, "lemma precondition: divideBy is only applied to constraints of degree >= 1")
		zzvp.Assert(coeff >= 1, "lemma precondition: divideBy by a positive coefficient")
	})
}

// vpAMO optionally applies at-most-one detection (as the CLI does with -cp).
func vpAMO(pb *Problem) {
	if zzvp.Param("amo", 0) == 1 && zzvp.Choose("amo", 2) == 1 {
		pb.DetectAtMostOne()
	}
}

// ---- arithmetic lemmas of the cutting-planes analysis (class B) ----

// vpSetHolds: meaning of a pbSet: sum |w_i| [lit_i] >= card, lit_i = x_i if w_i > 0 else not x_i.
func vpSetHolds(weights []int, card int, a int) bool {
	s := 0
	for i, w := range weights {
		bit := (a>>uint(i))&1 == 1
		pos := zzvp.Ite(zzvp.And(w > 0, bit), w, 0)
		neg := zzvp.Ite(zzvp.And(w < 0, zzvp.Not(bit)), -w, 0)
		s += pos + neg
	}
	return s >= card
}

func vpSymSet(n, W, C int, tag string) *pbSet {
	ws := make([]int, n)
	for i := range ws {
		ws[i] = zzvp.Int(tag+"w", -W, W)
	}
	return &pbSet{weights: ws, card: zzvp.Int(tag+"card", 1, C)}
}

// VP_C14_cp_clash: pb1 and pb2 imply clash(pb1, pb2), for every assignment.
func VP_C14_cp_clash() {
	zzvp.IntMode(zzvp.Param("int", 1) == 1)
	n := zzvp.Param("n", 3)
	W := zzvp.Param("W", 1<<20)
	C := zzvp.Param("C", 1<<22)
	pb1 := vpSymSet(n, W, C, "p")
	pb2 := vpSymSet(n, W, C, "q")
	w1, c1 := vpCopy(pb1.weights), pb1.card
	w2, c2 := vpCopy(pb2.weights), pb2.card
	a := zzvp.Int("a", 0, (1<<uint(n))-1)
	pb1.clash(nil, pb2)
	pre := zzvp.And(vpSetHolds(w1, c1, a), vpSetHolds(w2, c2, a))
	zzvp.Assert(zzvp.Implies(pre, vpSetHolds(pb1.weights, pb1.card, a)), "clash: the result is not implied by the two constraints")
	for i := range w2 {
		zzvp.Assert(pb2.weights[i] == w2[i], "clash modified its second argument")
	}
	zzvp.Reach("clash")
}

// VP_C14_cp_round: pb implies roundToOne(pb) / divideBy(pb) for every solver
// assignment used for the weakening choice.
func VP_C14_cp_round() {
	zzvp.IntMode(zzvp.Param("int", 1) == 1)
	n := zzvp.Param("n", 3)
	W := zzvp.Param("W", 1<<20)
	C := zzvp.Param("C", 1<<22)
	pb := vpSymSet(n, W, C, "p")
	w0, c0 := vpCopy(pb.weights), pb.card
	a := zzvp.Int("a", 0, (1<<uint(n))-1)
	if zzvp.Choose("fn", 2) == 0 {
		coeff := zzvp.Int("coeff", 1, W)
		pb.divideBy(coeff)
		zzvp.Reach("divide")
	} else {
		s := &Solver{model: make(Model, n)}
		for i := range s.model {
			s.model[i] = decLevel(zzvp.Int("lvl", -2, 2))
		}
		locked := Var(zzvp.Choose("locked", n))
		zzvp.Assume(pb.weights[locked] != 0)
		// precondition (asserted in situ on end-to-end runs): the degree stays
		// >= 1 after weakening, as it does for a conflicting or propagating constraint
		rem := 0
		wl := zzvp.Ite(pb.weights[locked] > 0, pb.weights[locked], -pb.weights[locked])
		for j, wj := range pb.weights {
			nonFals := zzvp.Or(s.model[j] == 0, zzvp.Eqv(s.model[j] > 0, wj > 0))
			removable := zzvp.And(wj != 0, zzvp.And(wj%wl != 0, nonFals))
			rem += zzvp.Ite(removable, zzvp.Ite(wj > 0, wj, -wj), 0)
		}
		zzvp.Assume(pb.card-rem >= 1)
		pb.roundToOne(s, locked, 2)
		zzvp.Reach("round")
	}
	zzvp.Assert(zzvp.Implies(vpSetHolds(w0, c0, a), vpSetHolds(pb.weights, pb.card, a)), "the rounded/divided constraint is not implied by the original one")
}

type vpPBSk struct {
	lits []int
	ws   []int
	d    int
}

// PB / cardinality skeletons over 4-6 variables (signs symbolic, degree shifted by a symbolic 0/1)
var vpPBSkeletons = [][]vpPBSk{
	// 0: pigeon-hole 3/2 with cardinality constraints
	{{[]int{1, 2}, nil, 1}, {[]int{3, 4}, nil, 1}, {[]int{5, 6}, nil, 1}, {[]int{-1, -3, -5}, nil, 2}, {[]int{-2, -4, -6}, nil, 2}},
	// 1: weighted constraints sharing variables
	{{[]int{1, 2, 3}, []int{2, 1, 1}, 2}, {[]int{-1, 3, 4}, []int{2, 2, 1}, 3}, {[]int{-2, -3, -4}, []int{1, 1, 1}, 2}, {[]int{1, -4}, nil, 1}},
	// 2: parity-like
	{{[]int{1, 2, 3}, []int{2, 2, 2}, 3}, {[]int{-1, -2, -3}, []int{2, 2, 2}, 3}, {[]int{1, 4}, nil, 1}, {[]int{-4, 2, 5}, []int{1, 1, 2}, 2}},
	// 3: 7 variables; with the signs as written the cutting-planes analysis kept re-learning a top-level fact (finding C14-cp-nontermination)
	{{[]int{1, 2, 5, 4}, []int{1, 2, 2, 1}, 2}, {[]int{-2, -4}, []int{1, 2}, 1}, {[]int{-3, -4, -1, 7, -5, 6}, []int{1, 1, 2, 1, 2, 1}, 5},
		{[]int{-2, -1, 7, -4, -5, 6, 3}, []int{2, 1, 2, 1, 1, 1, 1}, 7}, {[]int{1, 7, -5, 4, -2, -3, 6}, []int{2, 1, 2, 2, 1, 1, 1}, 5}},
	// 4: 8 variables; the analysis walked below level 1 (same finding, second cause)
	{{[]int{5, -7}, []int{2, 3}, 1}, {[]int{5, 7, -3, 2}, nil, 1}, {[]int{-2, -4, 7, 1, -5, -6, -8, -3}, []int{3, 2, 1, 1, 3, 3, 1, 2}, 5},
		{[]int{-2, 8, 1, 5, 7, -6, 3, 4}, []int{1, 1, 1, 2, 2, 1, 1, 3}, 10}, {[]int{-3, -7, -2, 6, 5, -8, 4, 1}, []int{2, 1, 2, 2, 2, 3, 2, 2}, 11},
		{[]int{-5, -6, -1, 2}, []int{3, 3, 1, 3}, 4}},
	// 5: a clause before a weighted constraint that forces two of its variables (4 variables)
	{{[]int{3, -4}, nil, 1}, {[]int{-1, -2}, nil, 1}, {[]int{1, 2, 3, 4}, []int{2, 2, 1, 1}, 5}},
	// 6: one weighted constraint over 4 variables (as an equality it is two constraints that simplify each other)
	{{[]int{-4, -1, 2, -3}, []int{2, 3, 1, 3}, 2}},
}

// VP_C14_pb_skeleton: PB skeletons with symbolic signs, solved with
// CuttingPlanes (and DetectAtMostOne) symbolic, against brute force; the
// learned-constraint monitor is active.
func VP_C14_pb_skeleton() {
	zzvp.IntMode(true)
	from := zzvp.Param("skfrom", 0)
	sk := vpPBSkeletons[from+zzvp.Choose("skeleton", zzvp.Param("nskel", 3))]
	maxSym := zzvp.Param("maxsigns", 8)
	n, cnt := 0, 0
	var constrs []PBConstr
	var refs []vpRef
	for _, c := range sk {
		lits := make([]int, len(c.lits))
		for i, l := range c.lits {
			if v := vpAbs(l); v > n {
				n = v
			}
			lits[i] = l
			if cnt < maxSym {
				lits[i] = zzvp.Ite(zzvp.Bool("flip"), -l, l)
				cnt++
			}
		}
		ws := c.ws
		if ws == nil {
			ws = vpOnes(len(lits))
		}
		d := c.d
		if zzvp.Param("dshift", 0) == 1 {
			d += zzvp.Choose("dshift", 2)
		}
		refs = append(refs, vpRef{vpCopy(lits), vpCopy(ws), 0, d})
		constrs = append(constrs, GtEq(vpCopy(lits), vpCopy(ws), d))
	}
	pb := ParsePBConstrs(constrs)
	vpSolveCheck(pb, refs, n)
}

// VP_C14_probe: a concrete instance run with cutting planes under the monitor (diagnosis aid).
func VP_C14_probe() {
	zzvp.IntMode(true)
	refs := []vpRef{{[]int{-2, 4, 1, 3}, []int{1, 1, 1, 1}, 0, 2}, {[]int{2, -4, -3}, []int{1, 1, 1}, 0, 2}}
	var cs []PBConstr
	for _, r := range refs {
		cs = append(cs, GtEq(vpCopy(r.lits), vpCopy(r.ws), r.d))
	}
	pb := ParsePBConstrs(cs)
	vpSolveCheck(pb, refs, 4)
}
