package solver

import "github.com/crillab/gophersat/zzvp"

// a small family of concrete problems that make the solver learn clauses,
// count, enumerate and optimise (php: 3 pigeons in 2 holes)
func vpPHP32() [][]int {
	// p_ij: pigeon i in hole j; variables 1..6
	v := func(i, j int) int { return (i-1)*2 + j }
	var cnf [][]int
	for i := 1; i <= 3; i++ {
		cnf = append(cnf, []int{v(i, 1), v(i, 2)})
	}
	for j := 1; j <= 2; j++ {
		for i := 1; i <= 3; i++ {
			for k := i + 1; k <= 3; k++ {
				cnf = append(cnf, []int{-v(i, j), -v(k, j)})
			}
		}
	}
	return cnf
}

type vpUse struct {
	kind  int
	st    Status
	count int
	cost  int
	model []bool
}

// vpOneUse: one independent use of the package, on its own data.
func vpOneUse(kind int, flip bool) vpUse {
	u := vpUse{kind: kind}
	switch kind {
	case 0: // unsatisfiable, needs conflict analysis
		cnf := vpPHP32()
		if flip {
			cnf = cnf[:len(cnf)-1] // drop a clause: satisfiable variant
		}
		s := New(ParseSlice(cnf))
		u.st = s.Solve()
		if u.st == Sat {
			u.model = s.Model()
		}
	case 1: // counting
		cnf := [][]int{{1, 2, 3}, {-1, -2}, {2, -3}}
		if flip {
			cnf = append(cnf, []int{-2, 3})
		}
		s := New(ParseSliceNb(cnf, 3))
		u.count = s.CountModels()
	case 2: // optimisation with several improving results
		cnf := [][]int{{4, 1}, {-4, 3, 5}, {5, 2, 1}}
		pb := ParseSliceNb(cnf, 5)
		w := 2
		if flip {
			w = 1
		}
		pb.SetCostFunc(vpLits([]int{1, 2, 3, 4, 5}), []int{w, 2, 2, 2, 2})
		s := New(pb)
		u.cost = s.Minimize()
		u.model = s.Model()
	default: // PB constraints
		pb := ParsePBConstrs([]PBConstr{GtEq([]int{1, 2, 3}, []int{2, 1, 1}, 2), AtMost([]int{1, 2}, 1)})
		s := New(pb)
		u.st = s.Solve()
		u.model = s.Model()
	}
	return u
}

func vpSameUse(a, b vpUse) bool {
	if a.st != b.st || a.count != b.count || a.cost != b.cost || len(a.model) != len(b.model) {
		return false
	}
	for i := range a.model {
		if a.model[i] != b.model[i] {
			return false
		}
	}
	return true
}

// VP_C16_two_solvers: two data-independent uses on two goroutines; the
// happens-before monitor must see no data race, and each use must return what
// it returns alone.
func VP_C16_two_solvers() {
	k1 := zzvp.Choose("use1", zzvp.Param("kinds", 4))
	k2 := zzvp.Choose("use2", zzvp.Param("kinds", 4))
	f1 := zzvp.Choose("flip1", 2) == 1
	f2 := zzvp.Choose("flip2", 2) == 1
	// sequential twins first
	want1 := vpOneUse(k1, f1)
	want2 := vpOneUse(k2, f2)
	zzvp.RaceDetect(true)
	zzvp.Preemptions(zzvp.Param("preempt", 1))
	zzvp.Schedule(1)
	c1 := make(chan vpUse, 1)
	c2 := make(chan vpUse, 1)
	go func() { c1 <- vpOneUse(k1, f1) }()
	go func() { c2 <- vpOneUse(k2, f2) }()
	got1 := <-c1
	got2 := <-c2
	zzvp.Schedule(0)
	zzvp.RaceDetect(false)
	zzvp.Assert(vpSameUse(got1, want1), "a solver used concurrently with another returned something else than when run alone")
	zzvp.Assert(vpSameUse(got2, want2), "a solver used concurrently with another returned something else than when run alone")
	zzvp.Reach("two-uses")
}
