package solver

import (
	"fmt"
	"io"
	"strings"

	"github.com/crillab/gophersat/zzvp"
)

// vpReader is a plain io.Reader over a byte slice whose bytes may be symbolic.
type vpReader struct {
	data []byte
	pos  int
}

func (r *vpReader) Read(p []byte) (int, error) {
	if r.pos >= len(r.data) {
		return 0, io.EOF
	}
	n := copy(p, r.data[r.pos:])
	r.pos += n
	return n, nil
}

// VP_C13_dimacs: ParseCNF on a DIMACS text whose body bytes (signs, digits,
// separators) are symbolic; the parsed problem must have exactly the models of
// the text.
// vpGenDimacs builds a DIMACS text whose body bytes (signs, digits,
// separators) are symbolic, together with the clauses it denotes.
func vpGenDimacs() (data []byte, orig [][]int, declared int, m int) {
	n := zzvp.Param("n", 2)
	declared = n + zzvp.Choose("extra", 2) // declared-but-unused variables
	m = zzvp.Choose("m", zzvp.Param("m", 2)+1)
	K := zzvp.Param("k", 2)
	if zzvp.Choose("comment-first", 2) == 1 {
		data = append(data, []byte("c a comment line\n")...)
	}
	data = append(data, []byte(fmt.Sprintf("p cnf %d %d\n", declared, m))...)
	for j := 0; j < m; j++ {
		k := zzvp.Choose("k", K+1)
		cl := make([]int, k)
		rich := zzvp.Param("layout", 1) == 1
		if rich && zzvp.Choose("comment", 3) == 1 {
			data = append(data, []byte("c another comment\n")...)
		}
		for i := 0; i < k; i++ {
			neg := zzvp.Bool("neg")
			d := zzvp.Byte("digit", '1', byte('0'+n))
			if neg {
				data = append(data, '-')
			}
			data = append(data, d)
			cl[i] = zzvp.Ite(neg, -int(d-'0'), int(d-'0'))
			sep := zzvp.Byte("sep", 9, 32)
			zzvp.Assume(zzvp.Or(sep == ' ', zzvp.Or(sep == '\t', sep == '\n')))
			data = append(data, sep)
			if rich && zzvp.Choose("sep2", 3) == 1 { // a second blank
				data = append(data, ' ')
			}
		}
		data = append(data, '0')
		eol := 0
		if rich {
			eol = zzvp.Choose("eol", 3)
		}
		switch eol {
		case 0:
			data = append(data, '\n')
		case 1:
			data = append(data, '\r', '\n')
		default:
			if j == m-1 {
				// last clause: file without final newline
			} else {
				data = append(data, ' ') // next clause on the same line
			}
		}
		orig = append(orig, cl)
	}
	return
}

// VP_C13_dimacs: ParseCNF on a DIMACS text whose body bytes are symbolic; the
// parsed problem must have exactly the models of the text.
func VP_C13_dimacs() {
	data, orig, declared, m := vpGenDimacs()
	pb, err := ParseCNF(&vpReader{data: data})
	zzvp.Assert(err == nil, "ParseCNF returned an error on a well-formed file")
	if err != nil {
		return
	}
	zzvp.Assert(pb.NbVars == declared, "NbVars differs from the header")
	a := zzvp.Int("a", 0, (1<<uint(declared))-1)
	zzvp.Assert(zzvp.Eqv(vpProblemHolds(pb, a), vpCNFHolds(orig, a)), "the parsed problem does not have the models of the DIMACS text")
	zzvp.Reach("dimacs")
	if m > 0 {
		zzvp.Reach("clauses")
	}
}

// ---- OPB ----

type vpOPBConstr struct {
	lits []int
	ws   []int
	eq   bool
	d    int
}

func vpOPBTerm(w, l int, plus bool) string {
	s := ""
	if w >= 0 && plus {
		s = "+"
	}
	lit := fmt.Sprintf("x%d", l)
	if l < 0 {
		lit = fmt.Sprintf("~x%d", -l)
	}
	return fmt.Sprintf("%s%d %s", s, w, lit)
}

// VP_C13_opb: ParseOPB on texts rendered from small instances (numbers are
// concretised when rendered); models and costs must be those of the text.
func VP_C13_opb() {
	zzvp.IntMode(true)
	n := zzvp.Param("n", 2)
	W := zzvp.Param("W", 2)
	D := zzvp.Param("D", 3)
	m := zzvp.Choose("m", zzvp.Param("m", 2)) + 1
	K := zzvp.Param("k", 2)
	var sb strings.Builder
	sb.WriteString("* #variable= " + fmt.Sprint(n) + " #constraint= " + fmt.Sprint(m) + "\n")
	withMin := zzvp.Choose("min", 2) == 1
	var cl, cw []int
	if withMin {
		kc := zzvp.Choose("kc", n) + 1
		sb.WriteString("min:")
		for i := 0; i < kc; i++ {
			// distinct variables in the objective: variable i+1, chosen sign
			l := i + 1
			if zzvp.Choose("csign", 2) == 1 {
				l = -l
			}
			w := zzvp.Concretize(zzvp.Int("cw", zzvp.Param("CWlo", 0), zzvp.Param("CW", 2)))
			cl = append(cl, l)
			cw = append(cw, w)
			sb.WriteString(" " + vpOPBTerm(w, l, true))
		}
		sb.WriteString(" ;\n")
	}
	layout := zzvp.Param("layout", 1) == 1
	if layout && zzvp.Choose("comment", 2) == 1 {
		sb.WriteString("* a comment\n")
	}
	var cs []vpOPBConstr
	for j := 0; j < m; j++ {
		k := zzvp.Choose("k", K) + 1
		if k > n {
			k = n
		}
		c := vpOPBConstr{}
		plus := layout && zzvp.Choose("plus", 2) == 1
		first := true
		var line strings.Builder
		for i := 0; i < k; i++ {
			l := i + 1 // each variable at most once per constraint
			if zzvp.Choose("sign", 2) == 1 {
				l = -l
			}
			w := zzvp.Concretize(zzvp.Int("w", -W, W))
			c.lits = append(c.lits, l)
			c.ws = append(c.ws, w)
			if !first {
				line.WriteString(" ")
			}
			first = false
			line.WriteString(vpOPBTerm(w, l, plus))
		}
		c.eq = zzvp.Choose("rel", 2) == 1
		c.d = zzvp.Concretize(zzvp.Int("d", -D, D))
		rel := ">="
		if c.eq {
			rel = "="
		}
		fmt.Fprintf(&line, " %s %d ;", rel, c.d)
		sb.WriteString(line.String() + "\n")
		cs = append(cs, c)
	}
	text := sb.String()
	zzvp.Obs("text", text)
	pb, err := ParseOPB(strings.NewReader(text))
	zzvp.Assert(err == nil, "ParseOPB returned an error on a well-formed file")
	if err != nil {
		return
	}
	a := zzvp.Int("a", 0, (1<<uint(n))-1)
	spec := true
	for _, c := range cs {
		rel := 0
		if c.eq {
			rel = 2
		}
		spec = zzvp.And(spec, vpRel(vpWSum(c.lits, c.ws, a), rel, c.d))
	}
	zzvp.Assert(zzvp.Eqv(vpProblemHolds(pb, a), spec), "the parsed problem does not have the models of the OPB text")
	if withMin {
		zzvp.Assert(len(pb.minLits) == len(cl), "objective has a different number of terms")
		got := 0
		for i, l := range pb.minLits {
			w := 1
			if pb.minWeights != nil {
				w = pb.minWeights[i]
			}
			got += zzvp.Ite(vpLitTrue(int(l.Int()), a), w, 0)
		}
		zzvp.Assert(got == vpCostA(cl, cw, a), "the parsed objective gives a model a different cost than the text")
	} else {
		zzvp.Assert(pb.minLits == nil, "an objective appeared from nowhere")
	}
	zzvp.Reach("opb")
}

// VP_C13_opb_skeleton: the PB skeletons of C14 (4-8 variables) written as OPB
// text with solver-chosen signs, relation (>= or =) and degree shift. The
// parsed problem must have the models of the text both as a data structure
// (symbolic assignment) and as the solver sees it: verdict, model and model
// count against the text's own semantics.
func VP_C13_opb_skeleton() {
	zzvp.IntMode(true)
	sk := vpPBSkeletons[zzvp.Param("skfrom", 0)+zzvp.Choose("skeleton", zzvp.Param("nskel", 3))]
	maxSym := zzvp.Param("maxsigns", 6)
	n, cnt := 0, 0
	var body strings.Builder
	var cs []vpOPBConstr
	for _, c := range sk {
		k := vpOPBConstr{}
		var line strings.Builder
		for i, l := range c.lits {
			if v := vpAbs(l); v > n {
				n = v
			}
			if cnt < maxSym {
				cnt++
				if zzvp.Choose("flip", 2) == 1 {
					l = -l
				}
			}
			w := 1
			if c.ws != nil {
				w = c.ws[i]
			}
			k.lits = append(k.lits, l)
			k.ws = append(k.ws, w)
			if i > 0 {
				line.WriteString(" ")
			}
			line.WriteString(vpOPBTerm(w, l, true))
		}
		k.eq = zzvp.Param("rel", 1) == 1 && zzvp.Choose("rel", 2) == 1
		k.d = c.d
		if zzvp.Param("dshift", 0) == 1 {
			k.d += zzvp.Choose("dshift", 2)
		}
		rel := ">="
		if k.eq {
			rel = "="
		}
		fmt.Fprintf(&line, " %s %d ;", rel, k.d)
		body.WriteString(line.String() + "\n")
		cs = append(cs, k)
	}
	text := fmt.Sprintf("* #variable= %d #constraint= %d\n", n, len(cs)) + body.String()
	zzvp.Obs("text", text)
	pb, err := ParseOPB(strings.NewReader(text))
	zzvp.Assert(err == nil, "ParseOPB returned an error on a well-formed file")
	if err != nil {
		return
	}
	holds := func(a int) bool {
		r := true
		for _, c := range cs {
			rel := 0
			if c.eq {
				rel = 2
			}
			r = zzvp.And(r, vpRel(vpWSum(c.lits, c.ws, a), rel, c.d))
		}
		return r
	}
	a := zzvp.Int("a", 0, (1<<uint(n))-1)
	zzvp.Assert(zzvp.Eqv(vpProblemHolds(pb, a), holds(a)), "the parsed problem does not have the models of the OPB text")
	nbModels := 0
	for b := 0; b < 1<<uint(n); b++ {
		if holds(b) {
			nbModels++
		}
	}
	s := New(pb)
	st := s.Solve()
	zzvp.Assert(st == Sat || st == Unsat, "status is Sat or Unsat")
	zzvp.Assert((st == Sat) == (nbModels > 0), "the verdict on the parsed problem is not the verdict of the text")
	if st == Sat {
		zzvp.Reach("sat")
		model := s.Model()
		ok := len(model) == n
		for _, c := range cs {
			rel := 0
			if c.eq {
				rel = 2
			}
			ok = ok && vpRel(vpWSumM(c.lits, c.ws, model), rel, c.d)
		}
		zzvp.Assert(ok, "the model of the parsed problem violates the text")
	} else {
		zzvp.Reach("unsat")
	}
	pb2, _ := ParseOPB(strings.NewReader(text))
	zzvp.Assert(New(pb2).CountModels() == nbModels, "the parsed problem does not have as many models as the text")
	zzvp.Reach("opb")
}

// VP_C01_cnf_dimacs: DIMACS stream (symbolic body bytes) -> ParseCNF -> New -> Solve vs truth table.
func VP_C01_cnf_dimacs() {
	data, orig, declared, _ := vpGenDimacs()
	pb, err := ParseCNF(&vpReader{data: data})
	zzvp.Assert(err == nil, "ParseCNF returned an error on a well-formed file")
	if err != nil {
		return
	}
	spec := vpCNFSat(orig, declared)
	s := New(pb)
	st := s.Solve()
	zzvp.Assert(st == Sat || st == Unsat, "status is Sat or Unsat, never Indet")
	zzvp.Assert(zzvp.Eqv(st == Sat, spec), "the verdict on the DIMACS stream is wrong")
	if st == Sat {
		model := s.Model()
		zzvp.Assert(len(model) == declared, "model has one value per declared variable")
		zzvp.Assert(vpModelHolds(orig, model), "model does not satisfy the clauses of the stream")
		zzvp.Reach("sat")
	} else {
		zzvp.Reach("unsat")
	}
}
