package solver

import "github.com/crillab/gophersat/zzvp"

// VP_C09_append_hist: histories (Solve | AppendClause)* against a from-scratch
// reading of the conjunction.
func VP_C09_append_hist() {
	zzvp.IntMode(true)
	n := zzvp.Param("n", 2)
	N := n + zzvp.Param("newvars", 1) // the added constraints may mention variables up to N
	_, orig := vpSymCNF(n, zzvp.Param("m", 2), zzvp.Param("k", 2))
	c := make([][]int, len(orig))
	for i := range orig {
		c[i] = vpCopy(orig[i])
	}
	pb := ParseSliceNb(c, n)
	s := New(pb)
	var refs []vpRef
	for _, cl := range orig {
		refs = append(refs, vpRef{cl, vpOnes(len(cl)), 0, 1})
	}
	W := zzvp.Param("W", 2)
	K := zzvp.Param("ka", 2)
	distinct := zzvp.Param("distinct", 1) == 1
	steps := zzvp.Param("steps", 2)
	wasUnsat := false
	check := func() {
		spec := vpRefsSat(refs, N)
		st := s.Solve()
		zzvp.Assert(st == Sat || st == Unsat, "Solve answers Sat or Unsat")
		if wasUnsat {
			zzvp.Assert(st == Unsat, "a solver that answered Unsat later answers something else")
		}
		if st == Sat {
			zzvp.Reach("sat")
			zzvp.Assert(spec, "answered Sat but the conjunction of base and added constraints is unsatisfiable")
			model := s.Model()
			zzvp.Assert(vpRefsHoldM(refs, model), "model violates the base problem or an added constraint")
		} else {
			zzvp.Reach("unsat")
			wasUnsat = true
			zzvp.Assert(zzvp.Not(spec), "answered Unsat but the conjunction of base and added constraints is satisfiable")
		}
	}
	for step := 0; step < steps; step++ {
		op := zzvp.Choose("op", 4)
		if op == 0 {
			check()
			continue
		}
		k := zzvp.Choose("ka", K) + 1
		ls := make([]int, k)
		lits := make([]Lit, k)
		for i := range ls {
			l := zzvp.Int("al", -N, N)
			zzvp.Assume(l != 0)
			if distinct {
				for j := 0; j < i; j++ {
					zzvp.Assume(zzvp.And(l != ls[j], l != -ls[j]))
				}
			}
			ls[i] = l
			lits[i] = IntToLit(int32(l))
		}
		switch op {
		case 1:
			zzvp.Reach("add-clause")
			refs = append(refs, vpRef{vpCopy(ls), vpOnes(k), 0, 1})
			s.AppendClause(NewClause(lits))
		case 2:
			d := zzvp.Int("card", 1, k)
			zzvp.Reach("add-card")
			refs = append(refs, vpRef{vpCopy(ls), vpOnes(k), 0, d})
			s.AppendClause(NewCardClause(lits, d))
		default:
			ws := make([]int, k)
			for i := range ws {
				ws[i] = zzvp.Int("aw", 1, W)
			}
			d := zzvp.Int("deg", 1, k*W)
			zzvp.Reach("add-pb")
			refs = append(refs, vpRef{vpCopy(ls), vpCopy(ws), 0, d})
			s.AppendClause(NewPBClause(lits, ws, d))
		}
	}
	check()
}
