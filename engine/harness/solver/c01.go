package solver

import "github.com/crillab/gophersat/zzvp"

// ---- shared oracle helpers (reference semantics written as terms) ----

// vpLitTrue: truth of DIMACS literal l (non-zero) under assignment index a
// (bit v-1 of a is the value of variable v).
func vpLitTrue(l int, a int) bool {
	pos := l > 0
	v := zzvp.Ite(pos, l, -l)
	bit := vpBit(a, v)
	return zzvp.Eqv(pos, bit)
}

// vpBit returns bit (v-1) of a for a possibly symbolic v in 1..8.
func vpBit(a int, v int) bool {
	r := false
	for k := 1; k <= 8; k++ {
		r = zzvp.Or(r, zzvp.And(v == k, (a>>(uint(k)-1))&1 == 1))
	}
	return r
}

func vpClauseHolds(lits []int, a int) bool {
	r := false
	for _, l := range lits {
		r = zzvp.Or(r, vpLitTrue(l, a))
	}
	return r
}

func vpCNFHolds(cnf [][]int, a int) bool {
	r := true
	for _, c := range cnf {
		r = zzvp.And(r, vpClauseHolds(c, a))
	}
	return r
}

func vpCNFSat(cnf [][]int, n int) bool {
	r := false
	for a := 0; a < 1<<uint(n); a++ {
		r = zzvp.Or(r, vpCNFHolds(cnf, a))
	}
	return r
}

// vpModelHolds: the model (slice of bools) satisfies the CNF as written.
func vpModelLit(l int, model []bool) bool {
	pos := l > 0
	v := zzvp.Ite(pos, l, -l)
	val := false
	for k := 1; k <= len(model); k++ {
		val = zzvp.Or(val, zzvp.And(v == k, model[k-1]))
	}
	return zzvp.Eqv(pos, val)
}

func vpModelHolds(cnf [][]int, model []bool) bool {
	r := true
	for _, c := range cnf {
		cl := false
		for _, l := range c {
			cl = zzvp.Or(cl, vpModelLit(l, model))
		}
		r = zzvp.And(r, cl)
	}
	return r
}

// vpSymCNF builds a symbolic CNF over n variables: shape by Choose, literals symbolic.
func vpSymCNF(n, maxM, maxK int) (cnf [][]int, orig [][]int) {
	m := zzvp.Choose("m", maxM+1)
	cnf = make([][]int, m)
	orig = make([][]int, m)
	for j := 0; j < m; j++ {
		k := zzvp.Choose("k", maxK+1)
		cnf[j] = make([]int, k)
		orig[j] = make([]int, k)
		for i := 0; i < k; i++ {
			l := zzvp.Int("l", -n, n)
			zzvp.Assume(l != 0)
			cnf[j][i] = l
			orig[j][i] = l
		}
	}
	return
}

// VP_C01_lit_arith: Lit/Var conversions for every int32 (class A lemma).
func VP_C01_lit_arith() {
	i := zzvp.Int32("i")
	zzvp.Assume(i != 0)
	zzvp.Assume(i != -2147483648)
	// also exclude values whose magnitude overflows the doubled encoding
	zzvp.Assume(zzvp.And(i < 1<<30, i > -(1<<30)))
	l := IntToLit(i)
	zzvp.Assert(l.Int() == i, "IntToLit(i).Int() == i")
	zzvp.Assert(zzvp.Eqv(l.IsPositive(), i > 0), "IsPositive")
	zzvp.Assert(l.Negation().Negation() == l, "Negation involution")
	zzvp.Assert(l.Negation().Int() == -i, "Negation flips sign")
	zzvp.Assert(l.Var() == l.Negation().Var(), "Negation keeps variable")
	av := zzvp.Ite(i > 0, int(i), int(-i))
	v := IntToVar(int32(av))
	zzvp.Assert(int(v.Int()) == av, "IntToVar(v).Int() == v for v = |i|")
	zzvp.Assert(v == l.Var(), "Lit.Var is the variable of the literal")
	zzvp.Assert(v.Lit() == IntToLit(int32(av)), "Var.Lit is the positive literal")
	zzvp.Assert(v.SignedLit(i < 0) == l, "SignedLit")
	zzvp.Reach("lit_arith")
}

// VP_C01_cnf_slice: ParseSliceNb -> New -> Solve vs truth table.
func VP_C01_cnf_slice() {
	maxN := zzvp.Param("n", 2)
	n := zzvp.Choose("n", maxN) + 1
	cnf, orig := vpSymCNF(n, zzvp.Param("m", 2), zzvp.Param("k", 2))
	if c := zzvp.Param("copies", 0); c > 0 && len(cnf) > 0 {
		// the first clause written 1..c+1 times (a formula is a list, not a set)
		for r := zzvp.Choose("copies", c+1); r > 0; r-- {
			cnf = append(cnf, vpCopy(cnf[0]))
			orig = append(orig, vpCopy(orig[0]))
		}
	}
	pb := ParseSliceNb(cnf, n)
	spec := vpCNFSat(orig, n)
	if pb.Status == Unsat {
		zzvp.Assert(zzvp.Not(spec), "parse-time Unsat but formula satisfiable")
		zzvp.Reach("parse-unsat")
	}
	vpAMO(pb)
	s := New(pb)
	vpCPSetup(s, n, func(a int) bool { return vpCNFHolds(orig, a) })
	if zzvp.Param("cert", 0) == 1 && zzvp.Choose("cert", 2) == 1 {
		s.Certified = true
		s.CertChan = make(chan string, 256)
	}
	if zzvp.Param("smalldb", 0) == 1 && zzvp.Choose("smalldb", 2) == 1 {
		s.wl.nbMax = 1
	}
	st := s.Solve()
	zzvp.Assert(st == Sat || st == Unsat, "status is Sat or Unsat, never Indet")
	if st == Sat {
		zzvp.Reach("sat")
		zzvp.Assert(spec, "answered Sat but no assignment satisfies the formula")
		model := s.Model()
		zzvp.Assert(len(model) == n, "model has one value per declared variable")
		zzvp.Assert(vpModelHolds(orig, model), "model does not satisfy the input as written")
	} else {
		zzvp.Reach("unsat")
		zzvp.Assert(zzvp.Not(spec), "answered Unsat but formula satisfiable")
	}
}

// vpCDCLSkeletons: variable positions of formulas that need real conflict
// analysis (learning, minimisation, backjumping); the signs are symbolic.
var vpCDCLSkeletons = [][][]int{
	// 0: pigeon-hole 3 pigeons / 2 holes (p_ij = (i-1)*2+j), unsatisfiable with the natural signs
	{{1, 2}, {3, 4}, {5, 6}, {-1, -3}, {-1, -5}, {-3, -5}, {-2, -4}, {-2, -6}, {-4, -6}},
	// 1: implication cycle with a twist
	{{-1, 2}, {-2, 3}, {-3, 4}, {-4, 5}, {-5, -1}, {1, 5}, {2, 4, -3}},
	// 2: 3-SAT over 5 variables
	{{1, 2, 3}, {-1, 2, 4}, {1, -2, 5}, {-3, -4, 5}, {3, 4, -5}, {-1, -2, -5}, {2, -3, -4}, {-2, 3, -5}},
	// 3: two overlapping xor-like blocks
	{{1, 2}, {-1, -2}, {2, 3}, {-2, -3}, {3, 4}, {-3, -4}, {1, 4}, {-1, -4}},
}

// vpPHP returns the pigeon-hole formula with p pigeons and h holes.
func vpPHP(p, h int) [][]int {
	v := func(i, j int) int { return (i-1)*h + j }
	var cnf [][]int
	for i := 1; i <= p; i++ {
		var c []int
		for j := 1; j <= h; j++ {
			c = append(c, v(i, j))
		}
		cnf = append(cnf, c)
	}
	for j := 1; j <= h; j++ {
		for i := 1; i <= p; i++ {
			for k := i + 1; k <= p; k++ {
				cnf = append(cnf, []int{-v(i, j), -v(k, j)})
			}
		}
	}
	return cnf
}

// vpRandom3SAT returns a fixed pseudo-random 3-SAT skeleton (LCG with the given seed).
func vpRandom3SAT(n, m, seed int) [][]int {
	x := uint32(seed)*2654435761 + 12345
	next := func(k int) int {
		x = x*1664525 + 1013904223
		return int((x >> 8) % uint32(k))
	}
	var cnf [][]int
	for j := 0; j < m; j++ {
		var c []int
		for len(c) < 3 {
			v := next(n) + 1
			dup := false
			for _, l := range c {
				if l == v || l == -v {
					dup = true
				}
			}
			if dup {
				continue
			}
			if next(2) == 1 {
				v = -v
			}
			c = append(c, v)
		}
		cnf = append(cnf, c)
	}
	return cnf
}

// vpBigSkeleton: skeletons that need tens of conflicts (index 100+).
func vpBigSkeleton(k int) [][]int {
	if k >= 100 {
		// sweep: random 3-SAT at the satisfiability threshold, one instance per index
		n := zzvp.Param("sweepn", 10)
		return vpRandom3SAT(n, n*43/10, zzvp.Param("seed", 0)+k)
	}
	switch k {
	case 0:
		return vpPHP(4, 3)
	case 1:
		return vpRandom3SAT(8, 34, zzvp.Param("seed", 0)+1)
	case 2:
		return vpRandom3SAT(10, 42, zzvp.Param("seed", 0)+2)
	case 3:
		return vpPHP(5, 4)
	case 4:
		return vpPHP(7, 5)
	case 5:
		return vpPHP(8, 6)
	case 7:
		// satisfiable, 9 variables: a conflict learns a binary clause that later propagates from its second literal
		return [][]int{{8, -6, 9}, {-9, 3, 7}, {-9, 3, -7}, {9, 8, 6}, {-8, -3, 1}, {1, -8, 3}, {2, 4, -5}, {-2, 5, 6}}
	default:
		return vpRandom3SAT(20, 91, zzvp.Param("seed", 0)+3)
	}
}

// VP_C01_cnf_skeleton: fixed skeletons whose literal signs are symbolic:
// verdict, model, and (optionally) the certificate. For skeletons with more
// than 8 variables the verdict is validated through the answer itself: a Sat
// model is checked against the clauses, an Unsat answer through its
// certificate replayed by the independent RUP procedure.
func VP_C01_cnf_skeleton() {
	zzvp.IntMode(true)
	var sk [][]int
	if nb := zzvp.Param("big", 0); nb > 0 {
		sk = vpBigSkeleton(zzvp.Param("bigfirst", 0) + zzvp.Choose("skeleton", nb))
	} else {
		sk = vpCDCLSkeletons[zzvp.Choose("skeleton", zzvp.Param("nskel", len(vpCDCLSkeletons)))]
	}
	maxSym := zzvp.Param("maxsigns", 8)
	n, cnt := 0, 0
	var cnf, orig [][]int
	for _, c := range sk {
		a, b := make([]int, len(c)), make([]int, len(c))
		for i, l := range c {
			v := l
			if v < 0 {
				v = -v
			}
			if v > n {
				n = v
			}
			x := l
			if cnt < maxSym {
				x = zzvp.Ite(zzvp.Bool("flip"), -l, l)
				cnt++
			}
			a[i], b[i] = x, x
		}
		cnf, orig = append(cnf, a), append(orig, b)
	}
	pb := ParseSliceNb(cnf, n)
	vpAMO(pb)
	s := New(pb)
	vpCPSetup(s, n, nil)
	cert := zzvp.Param("cert", 0) == 1
	if cert {
		s.Certified = true
		s.CertChan = make(chan string, 4096)
	}
	if zzvp.Param("smalldb", 0) == 1 && zzvp.Choose("smalldb", 2) == 1 {
		s.wl.nbMax = 1
	}
	vpSteer(s)
	st := s.Solve()
	zzvp.Assert(st == Sat || st == Unsat, "status is Sat or Unsat")
	// all literals are concrete by now in practice; decide the reference concretely
	F := make([][]int, len(orig))
	for i, cl := range orig {
		F[i] = make([]int, len(cl))
		for j, l := range cl {
			F[i][j] = zzvp.Concretize(l)
		}
	}
	sat := false
	if n > 8 {
		zzvp.Assert(cert, "skeletons with more than 8 variables are validated through their certificate")
		sat = st == Sat // validated below: model (Sat) or certificate (Unsat)
	}
	for a := 0; n <= 8 && a < 1<<uint(n) && !sat; a++ {
		all := true
		for _, cl := range F {
			ok := false
			for _, l := range cl {
				if ((a>>uint(vpAbs(l)-1))&1 == 1) == (l > 0) {
					ok = true
				}
			}
			if !ok {
				all = false
				break
			}
		}
		sat = all
	}
	zzvp.Assert((st == Sat) == sat, "the verdict is wrong")
	if st == Sat {
		zzvp.Reach("sat")
		m := s.Model()
		zzvp.Assert(len(m) == n, "model has one value per declared variable")
		for _, cl := range F {
			ok := false
			for _, l := range cl {
				if m[vpAbs(l)-1] == (l > 0) {
					ok = true
				}
			}
			zzvp.Assert(ok, "the model violates a clause")
		}
	} else {
		zzvp.Reach("unsat")
	}
	if s.Stats.NbLearned > 0 {
		zzvp.Reach("learned")
	}
	if s.Stats.NbDeleted > 0 {
		zzvp.Reach("deleted")
	}
	if s.Stats.NbConflicts >= 10 {
		zzvp.Reach("ten-conflicts")
	}
	if s.Stats.NbRestarts > 0 {
		zzvp.Reach("restarted")
	}
	zzvp.Obs("conflicts", s.Stats.NbConflicts)
	if cert {
		var lines []string
		for len(s.CertChan) > 0 {
			lines = append(lines, <-s.CertChan)
		}
		db := append([][]int{}, F...)
		for _, line := range lines {
			c, ok := vpParseLine(line)
			zzvp.Assert(ok, "certificate line is not a DIMACS clause")
			if !ok {
				return
			}
			if st == Unsat {
				zzvp.Assert(vpRUP(db, n, c), "certificate line is not derivable by unit propagation")
			} else if n <= 8 {
				zzvp.Assert(vpImplied(F, n, c), "a clause emitted on a satisfiable formula is not a consequence of it")
			} else {
				// RUP derivability implies consequence; learned clauses are RUP by construction
				zzvp.Assert(vpRUP(db, n, c), "a clause emitted on a satisfiable formula is not derivable by unit propagation")
			}
			db = append(db, c)
			zzvp.Reach("line")
		}
		if st == Unsat {
			zzvp.Assert(vpRUP(db, n, nil), "the empty clause is not derivable from the certificate")
		}
	}
}
