package solver

import "github.com/crillab/gophersat/zzvp"

// ---- shared oracle helpers (reference semantics written as terms) ----

// vpLitTrue: truth of DIMACS literal l (non-zero) under assignment index a
// (bit v-1 of a is the value of variable v).
func vpLitTrue(l int, a int) bool {
	pos := l > 0
	v := zzvp.Ite(pos, l, -l)
	bit := vpBit(a, v)
	return zzvp.Eqv(pos, bit)
}

// vpBit returns bit (v-1) of a for a possibly symbolic v in 1..8.
func vpBit(a int, v int) bool {
	r := false
	for k := 1; k <= 8; k++ {
		r = zzvp.Or(r, zzvp.And(v == k, (a>>(uint(k)-1))&1 == 1))
	}
	return r
}

func vpClauseHolds(lits []int, a int) bool {
	r := false
	for _, l := range lits {
		r = zzvp.Or(r, vpLitTrue(l, a))
	}
	return r
}

func vpCNFHolds(cnf [][]int, a int) bool {
	r := true
	for _, c := range cnf {
		r = zzvp.And(r, vpClauseHolds(c, a))
	}
	return r
}

func vpCNFSat(cnf [][]int, n int) bool {
	r := false
	for a := 0; a < 1<<uint(n); a++ {
		r = zzvp.Or(r, vpCNFHolds(cnf, a))
	}
	return r
}

// vpModelHolds: the model (slice of bools) satisfies the CNF as written.
func vpModelLit(l int, model []bool) bool {
	pos := l > 0
	v := zzvp.Ite(pos, l, -l)
	val := false
	for k := 1; k <= len(model); k++ {
		val = zzvp.Or(val, zzvp.And(v == k, model[k-1]))
	}
	return zzvp.Eqv(pos, val)
}

func vpModelHolds(cnf [][]int, model []bool) bool {
	r := true
	for _, c := range cnf {
		cl := false
		for _, l := range c {
			cl = zzvp.Or(cl, vpModelLit(l, model))
		}
		r = zzvp.And(r, cl)
	}
	return r
}

// vpSymCNF builds a symbolic CNF over n variables: shape by Choose, literals symbolic.
func vpSymCNF(n, maxM, maxK int) (cnf [][]int, orig [][]int) {
	m := zzvp.Choose("m", maxM+1)
	cnf = make([][]int, m)
	orig = make([][]int, m)
	for j := 0; j < m; j++ {
		k := zzvp.Choose("k", maxK+1)
		cnf[j] = make([]int, k)
		orig[j] = make([]int, k)
		for i := 0; i < k; i++ {
			l := zzvp.Int("l", -n, n)
			zzvp.Assume(l != 0)
			cnf[j][i] = l
			orig[j][i] = l
		}
	}
	return
}

// VP_C01_lit_arith: Lit/Var conversions for every int32 (class A lemma).
func VP_C01_lit_arith() {
	i := zzvp.Int32("i")
	zzvp.Assume(i != 0)
	zzvp.Assume(i != -2147483648)
	// also exclude values whose magnitude overflows the doubled encoding
	zzvp.Assume(zzvp.And(i < 1<<30, i > -(1<<30)))
	l := IntToLit(i)
	zzvp.Assert(l.Int() == i, "IntToLit(i).Int() == i")
	zzvp.Assert(zzvp.Eqv(l.IsPositive(), i > 0), "IsPositive")
	zzvp.Assert(l.Negation().Negation() == l, "Negation involution")
	zzvp.Assert(l.Negation().Int() == -i, "Negation flips sign")
	zzvp.Assert(l.Var() == l.Negation().Var(), "Negation keeps variable")
	av := zzvp.Ite(i > 0, int(i), int(-i))
	v := IntToVar(int32(av))
	zzvp.Assert(int(v.Int()) == av, "IntToVar(v).Int() == v for v = |i|")
	zzvp.Assert(v == l.Var(), "Lit.Var is the variable of the literal")
	zzvp.Assert(v.Lit() == IntToLit(int32(av)), "Var.Lit is the positive literal")
	zzvp.Assert(v.SignedLit(i < 0) == l, "SignedLit")
	zzvp.Reach("lit_arith")
}

// VP_C01_cnf_slice: ParseSliceNb -> New -> Solve vs truth table.
func VP_C01_cnf_slice() {
	maxN := zzvp.Param("n", 2)
	n := zzvp.Choose("n", maxN) + 1
	cnf, orig := vpSymCNF(n, zzvp.Param("m", 2), zzvp.Param("k", 2))
	pb := ParseSliceNb(cnf, n)
	spec := vpCNFSat(orig, n)
	if pb.Status == Unsat {
		zzvp.Assert(zzvp.Not(spec), "parse-time Unsat but formula satisfiable")
		zzvp.Reach("parse-unsat")
	}
	vpAMO(pb)
	s := New(pb)
	vpCPSetup(s, n, func(a int) bool { return vpCNFHolds(orig, a) })
	if zzvp.Param("cert", 0) == 1 && zzvp.Choose("cert", 2) == 1 {
		s.Certified = true
		s.CertChan = make(chan string, 256)
	}
	if zzvp.Param("smalldb", 0) == 1 && zzvp.Choose("smalldb", 2) == 1 {
		s.wl.nbMax = 1
	}
	st := s.Solve()
	zzvp.Assert(st == Sat || st == Unsat, "status is Sat or Unsat, never Indet")
	if st == Sat {
		zzvp.Reach("sat")
		zzvp.Assert(spec, "answered Sat but no assignment satisfies the formula")
		model := s.Model()
		zzvp.Assert(len(model) == n, "model has one value per declared variable")
		zzvp.Assert(vpModelHolds(orig, model), "model does not satisfy the input as written")
	} else {
		zzvp.Reach("unsat")
		zzvp.Assert(zzvp.Not(spec), "answered Unsat but formula satisfiable")
	}
}
