package solver

import (
	"fmt"
	"strings"

	"github.com/crillab/gophersat/zzvp"
)

const vpInf = 1 << 30

// vpCostA: cost of assignment a under the cost function (lits, ws).
func vpCostA(lits, ws []int, a int) int {
	c := 0
	for i, l := range lits {
		c += zzvp.Ite(vpLitTrue(l, a), ws[i], 0)
	}
	return c
}

func vpCostM(lits, ws []int, model []bool) int {
	c := 0
	for i, l := range lits {
		c += zzvp.Ite(vpModelLit(l, model), ws[i], 0)
	}
	return c
}

// vpMin: minimum cost over the assignments satisfying holds(a) (vpInf if none).
func vpMin(n int, holds func(a int) bool, cost func(a int) int) int {
	best := vpInf
	for a := 0; a < 1<<uint(n); a++ {
		c := cost(a)
		better := zzvp.And(holds(a), c < best)
		best = zzvp.Ite(better, c, best)
	}
	return best
}

func vpLits(xs []int) []Lit {
	r := make([]Lit, len(xs))
	for i, x := range xs {
		r[i] = IntToLit(int32(x))
	}
	return r
}

// vpOptimCheck runs both optimisation entry points on two separately built
// problems and compares with the reference minimum.
func vpOptimCheck(mk func() *Problem, n int, holds func(a int) bool, holdsM func(m []bool) bool, cl, cw []int, nilWeights bool, hasCost bool) {
	cost := func(a int) int {
		if !hasCost {
			return 0
		}
		return vpCostA(cl, cw, a)
	}
	min := vpMin(n, holds, cost)
	sat := min < vpInf
	setCost := func(pb *Problem) {
		if hasCost {
			if nilWeights {
				pb.SetCostFunc(vpLits(cl), nil)
			} else {
				pb.SetCostFunc(vpLits(cl), vpCopy(cw))
			}
		}
	}
	// entry point 1: Optimal
	pb1 := mk()
	setCost(pb1)
	vpAMO(pb1)
	s1 := New(pb1)
	vpCPSetup(s1, n, nil)
	vpSteer(s1)
	res := s1.Optimal(nil, nil)
	zzvp.Assert(res.Status == Sat || res.Status == Unsat, "Optimal: status is Sat or Unsat")
	if res.Status == Unsat {
		zzvp.Reach("unsat")
		zzvp.Assert(zzvp.Not(sat), "Optimal answered Unsat but a model exists")
	} else {
		zzvp.Reach("sat")
		zzvp.Assert(sat, "Optimal answered Sat but no model exists")
		zzvp.Assert(holdsM(res.Model), "Optimal: model does not satisfy the constraints")
		if hasCost {
			zzvp.Assert(res.Weight == vpCostM(cl, cw, res.Model), "Optimal: reported cost differs from the cost of the returned model")
		}
		zzvp.Assert(res.Weight == min, "Optimal: reported cost is not the minimum")
	}
	// entry point 2: Minimize
	pb2 := mk()
	setCost(pb2)
	s2 := New(pb2)
	vpCPSetup(s2, n, nil)
	vpSteer(s2)
	c2 := s2.Minimize()
	if !sat {
		// expected -1
	}
	zzvp.Assert(zzvp.Eqv(c2 == -1, zzvp.Not(sat)), "Minimize returns -1 exactly when no model exists")
	if c2 != -1 {
		zzvp.Assert(c2 == min, "Minimize: returned cost is not the minimum")
		m2 := s2.Model()
		zzvp.Assert(holdsM(m2), "Minimize: model does not satisfy the constraints")
		if hasCost {
			zzvp.Assert(vpCostM(cl, cw, m2) == c2, "Minimize: model does not attain the returned cost")
		}
	}
}

// vpSymCost builds a cost function over kc distinct variables.
func vpSymCost(n, kc, W int) (cl, cw []int) {
	cl = make([]int, kc)
	cw = make([]int, kc)
	for i := 0; i < kc; i++ {
		l := zzvp.Int("cl", -n, n)
		zzvp.Assume(l != 0)
		for j := 0; j < i; j++ {
			zzvp.Assume(zzvp.And(l != cl[j], l != -cl[j]))
		}
		cl[i] = l
		cw[i] = zzvp.Int("cw", zzvp.Param("Wlo", 0), W)
	}
	return
}

// VP_C03_optim_cnf: clauses + linear cost function.
func VP_C03_optim_cnf() {
	zzvp.IntMode(true)
	n := zzvp.Param("n", 3)
	var orig [][]int
	if zzvp.Param("unitfirst", 0) == 1 {
		// a unit clause followed by one clause of 1..k literals
		u := zzvp.Int("l", -n, n)
		zzvp.Assume(u != 0)
		k := zzvp.Choose("k", zzvp.Param("k", 2)) + 1
		c := make([]int, k)
		for i := range c {
			l := zzvp.Int("l", -n, n)
			zzvp.Assume(l != 0)
			c[i] = l
		}
		orig = [][]int{{u}, c}
	} else {
		_, orig = vpSymCNF(n, zzvp.Param("m", 2), zzvp.Param("k", 2))
	}
	variant := 0 // 0: weights, 1: nil weights, 2: no cost function
	kc := n
	if zzvp.Param("fullcost", 0) != 1 {
		variant = zzvp.Choose("costkind", 3)
		kc = 0
		if variant != 2 {
			kc = zzvp.Choose("kc", zzvp.Param("kc", 3)) + 1
			if kc > n {
				kc = n
			}
		}
	}
	cl, cw := vpSymCost(n, kc, zzvp.Param("W", 2))
	if variant == 1 {
		cw = vpOnes(kc)
	}
	mk := func() *Problem {
		c := make([][]int, len(orig))
		for i := range orig {
			c[i] = vpCopy(orig[i])
		}
		return ParseSliceNb(c, n)
	}
	vpOptimCheck(mk, n,
		func(a int) bool { return vpCNFHolds(orig, a) },
		func(m []bool) bool { return vpModelHolds(orig, m) },
		cl, cw, variant == 1, variant != 2)
}

// VP_C03_optim_pb: one PB/cardinality constraint (+ optional unit) + cost function.
func VP_C03_optim_pb() {
	zzvp.IntMode(true)
	n := zzvp.Param("n", 3)
	k := zzvp.Choose("k", zzvp.Param("k", 3)) + 1
	if k > n {
		k = n
	}
	W := zzvp.Param("PW", 2)
	lits, _ := vpSymDistinctLits(n, k)
	ws := make([]int, k)
	for i := range ws {
		ws[i] = zzvp.Int("w", 1, W)
	}
	d := zzvp.Int("d", 0, k*W+1)
	refs := []vpRef{{vpCopy(lits), vpCopy(ws), 0, d}}
	kc := zzvp.Choose("kc", zzvp.Param("kc", 3)) + 1
	if kc > n {
		kc = n
	}
	cl, cw := vpSymCost(n, kc, zzvp.Param("W", 2))
	mk := func() *Problem {
		return ParsePBConstrs([]PBConstr{GtEq(vpCopy(lits), vpCopy(ws), d)})
	}
	// the cost function may only mention variables the problem declares
	// (ParsePBConstrs has no way to declare more); anything else is outside the claim
	nv := mk().NbVars
	for _, l := range cl {
		zzvp.Assume(zzvp.And(l <= nv, -l <= nv))
	}
	vpOptimCheck(mk, n,
		func(a int) bool { return vpRefsHold(refs, a) },
		func(m []bool) bool { return vpRefsHoldM(refs, m) },
		cl, cw, false, true)
}

// vpSteer makes the initial phase of every variable symbolic, so that every
// first model the decision heuristic could pick is explored (the property
// must hold whatever the heuristic state is).
func vpSteer(s *Solver) {
	if zzvp.Param("steer", 0) != 1 {
		return
	}
	for v := range s.polarity {
		s.polarity[v] = zzvp.Bool("phase")
	}
}

// VP_C03_optim_opb: optimisation through the OPB syntax, with negative cost
// coefficients as the syntax accepts them.
func VP_C03_optim_opb() {
	zzvp.IntMode(true)
	n := zzvp.Param("n", 2)
	CW := zzvp.Param("CW", 2)
	var sb strings.Builder
	var cl, cw []int
	sb.WriteString("min:")
	for v := 1; v <= n; v++ {
		l := v
		if zzvp.Choose("csign", 2) == 1 {
			l = -v
		}
		w := zzvp.Concretize(zzvp.Int("cw", zzvp.Param("CWlo", 0), CW)) // negative coefficients: known finding
		cl, cw = append(cl, l), append(cw, w)
		if l > 0 {
			fmt.Fprintf(&sb, " %d x%d", w, v)
		} else {
			fmt.Fprintf(&sb, " %d ~x%d", w, v)
		}
	}
	sb.WriteString(" ;\n")
	// one clause-like constraint so that the problem is not trivial
	k := zzvp.Choose("k", n) + 1
	var lits, ws []int
	for i := 0; i < k; i++ {
		l := i + 1
		if zzvp.Choose("sign", 2) == 1 {
			l = -l
		}
		lits, ws = append(lits, l), append(ws, 1)
		if l > 0 {
			fmt.Fprintf(&sb, "1 x%d ", l)
		} else {
			fmt.Fprintf(&sb, "1 ~x%d ", -l)
		}
	}
	d := zzvp.Concretize(zzvp.Int("d", 1, k))
	fmt.Fprintf(&sb, ">= %d ;\n", d)
	text := sb.String()
	zzvp.Obs("text", text)
	refs := []vpRef{{lits, ws, 0, d}}
	holds := func(a int) bool { return vpRefsHold(refs, a) }
	min := vpMin(n, holds, func(a int) int { return vpCostA(cl, cw, a) })
	pb1, err := ParseOPB(strings.NewReader(text))
	zzvp.Assert(err == nil, "ParseOPB failed on a well-formed file")
	if err != nil {
		return
	}
	res := New(pb1).Optimal(nil, nil)
	zzvp.Assert(res.Status == Sat, "a satisfiable problem is not answered Sat")
	if res.Status == Sat {
		zzvp.Assert(vpRefsHoldM(refs, res.Model), "Optimal: model does not satisfy the constraints")
		zzvp.Assert(res.Weight == vpCostM(cl, cw, res.Model), "Optimal: reported cost differs from the cost of the returned model")
		zzvp.Assert(res.Weight == min, "Optimal: reported cost is not the minimum")
	}
	pb2, _ := ParseOPB(strings.NewReader(text))
	s2 := New(pb2)
	c2 := s2.Minimize()
	zzvp.Assert(c2 == min, "Minimize: returned cost is not the minimum")
	zzvp.Reach("opb-optim")
}

// VP_KF_C03_1: concrete witness of known finding C03-negative-cost-coefficients.
func VP_KF_C03_1() {
	pb, err := ParseOPB(strings.NewReader("min: -2 x1 -1 x2 ;\n1 x1 >= 1 ;\n"))
	zzvp.Assert(err == nil, "ParseOPB failed")
	res := New(pb).Optimal(nil, nil)
	zzvp.Assert(res.Status == Sat && res.Weight == -3, "optimum of -2 x1 - x2 subject to x1 is -3")
}

// VP_C03_optim_skeleton: clause skeletons over 5-6 variables (symbolic signs),
// an optional unit clause, and a cost function over all variables with
// solver-enumerated weights: several improvement rounds, cost literals fixed
// at top level, weight-sorted bound constraints.
func VP_C03_optim_skeleton() {
	zzvp.IntMode(true)
	var sk [][]int
	switch zzvp.Choose("skeleton", zzvp.Param("nskel", 3)) {
	case 0:
		sk = [][]int{{4, 1}, {-4, 3, 5}, {5, 2, 1}}
	case 1:
		sk = vpRandom3SAT(6, 5, zzvp.Param("seed", 0)+1)
	default:
		sk = [][]int{{1, 2}, {2, 3, 4}, {4, 5}, {5, 6, 1}, {3, 6}}
	}
	maxSym := zzvp.Param("maxsigns", 4)
	n, cnt := 0, 0
	var orig [][]int
	for _, c := range sk {
		b := make([]int, len(c))
		for i, l := range c {
			if v := vpAbs(l); v > n {
				n = v
			}
			b[i] = l
			if cnt < maxSym {
				b[i] = zzvp.Concretize(zzvp.Ite(zzvp.Bool("flip"), -l, l))
				cnt++
			}
		}
		orig = append(orig, b)
	}
	if u := zzvp.Choose("unit", n+1); u > 0 {
		l := u
		if zzvp.Choose("unit-neg", 2) == 1 {
			l = -u
		}
		orig = append(orig, []int{l})
	}
	cl := make([]int, n)
	cw := make([]int, n)
	for i := range cl {
		cl[i] = i + 1
		cw[i] = zzvp.Concretize(zzvp.Int("cw", 1, zzvp.Param("W", 2)))
	}
	mk := func() *Problem {
		c := make([][]int, len(orig))
		for i := range orig {
			c[i] = vpCopy(orig[i])
		}
		pb := ParseSliceNb(c, n)
		pb.SetCostFunc(vpLits(cl), vpCopy(cw))
		return pb
	}
	best := -1
	for a := 0; a < 1<<uint(n); a++ {
		all := true
		for _, c := range orig {
			ok := false
			for _, l := range c {
				if ((a>>uint(vpAbs(l)-1))&1 == 1) == (l > 0) {
					ok = true
				}
			}
			if !ok {
				all = false
				break
			}
		}
		if !all {
			continue
		}
		c := 0
		for i := range cl {
			if (a>>uint(i))&1 == 1 {
				c += cw[i]
			}
		}
		if best == -1 || c < best {
			best = c
		}
	}
	res := New(mk()).Optimal(nil, nil)
	if best == -1 {
		zzvp.Assert(res.Status == Unsat, "no model exists but Optimal does not answer Unsat")
		zzvp.Reach("unsat")
	} else {
		zzvp.Assert(res.Status == Sat, "a model exists but Optimal does not answer Sat")
		if res.Status == Sat {
			cost := 0
			for i := range cl {
				if res.Model[i] {
					cost += cw[i]
				}
			}
			zzvp.Assert(res.Weight == cost, "Optimal: reported cost differs from the cost of the returned model")
			zzvp.Assert(res.Weight == best, "Optimal: reported cost is not the minimum")
			for _, c := range orig {
				ok := false
				for _, l := range c {
					if res.Model[vpAbs(l)-1] == (l > 0) {
						ok = true
					}
				}
				zzvp.Assert(ok, "Optimal: the model violates a clause")
			}
		}
		zzvp.Reach("sat")
	}
	c2 := New(mk()).Minimize()
	zzvp.Assert(c2 == best, "Minimize: returned cost is not the minimum (or -1 for Unsat)")
}
