package main

import (
	"fmt"
	"strconv"
	"strings"

	"github.com/crillab/gophersat/zzvp"
)

// ---- brute-force oracles on concrete instances ----

func vpAbs(x int) int {
	if x < 0 {
		return -x
	}
	return x
}

func vpClauseTrue(c []int, a int) bool {
	for _, l := range c {
		if ((a>>uint(vpAbs(l)-1))&1 == 1) == (l > 0) {
			return true
		}
	}
	return false
}

func vpCNFTrue(cnf [][]int, a int) bool {
	for _, c := range cnf {
		if !vpClauseTrue(c, a) {
			return false
		}
	}
	return true
}

func vpCountCNF(cnf [][]int, n int) int {
	cnt := 0
	for a := 0; a < 1<<uint(n); a++ {
		if vpCNFTrue(cnf, a) {
			cnt++
		}
	}
	return cnt
}

func vpImplied(cnf [][]int, n int, c []int) bool {
	for a := 0; a < 1<<uint(n); a++ {
		if vpCNFTrue(cnf, a) && !vpClauseTrue(c, a) {
			return false
		}
	}
	return true
}

func vpRUP(clauses [][]int, n int, c []int) bool {
	val := make([]int, n+1)
	set := func(l int) bool {
		v, want := vpAbs(l), 1
		if l < 0 {
			want = -1
		}
		if val[v] == -want {
			return false
		}
		val[v] = want
		return true
	}
	for _, l := range c {
		if !set(-l) {
			return true
		}
	}
	for {
		changed := false
		for _, cl := range clauses {
			un, sat, last := 0, false, 0
			for _, l := range cl {
				v := vpAbs(l)
				switch {
				case val[v] == 0:
					if un == 0 || last != l {
						un++
					}
					last = l
				case (val[v] == 1) == (l > 0):
					sat = true
				}
			}
			if sat {
				continue
			}
			if un == 0 {
				return true
			}
			if un == 1 {
				if !set(last) {
					return true
				}
				changed = true
			}
		}
		if !changed {
			return false
		}
	}
}

// ---- instance generators (solver-enumerated values) ----

func vpGenCNF(n, M, K int) [][]int {
	m := zzvp.Choose("m", M+1)
	cnf := make([][]int, m)
	for j := range cnf {
		k := zzvp.Choose("k", K) + 1
		cnf[j] = make([]int, k)
		for i := range cnf[j] {
			l := zzvp.Int("l", -n, n)
			zzvp.Assume(l != 0)
			cnf[j][i] = zzvp.Concretize(l)
		}
	}
	return cnf
}

func vpDimacs(n int, cnf [][]int) string {
	var sb strings.Builder
	fmt.Fprintf(&sb, "c generated\np cnf %d %d\n", n, len(cnf))
	for _, c := range cnf {
		for _, l := range c {
			fmt.Fprintf(&sb, "%d ", l)
		}
		sb.WriteString("0\n")
	}
	return sb.String()
}

// stdout split into lines by first token
func vpLines(out string) (sLines, vLines, oLines, other []string) {
	for _, line := range strings.Split(out, "\n") {
		switch {
		case strings.HasPrefix(line, "s "):
			sLines = append(sLines, line)
		case strings.HasPrefix(line, "v "):
			vLines = append(vLines, line)
		case strings.HasPrefix(line, "o "):
			oLines = append(oLines, line)
		case strings.HasPrefix(line, "c ") || line == "":
		default:
			other = append(other, line)
		}
	}
	return
}

func vpParseV(line string, n int, opb bool) ([]bool, bool) {
	fs := strings.Fields(line)[1:]
	model := make([]bool, n)
	seen := 0
	for _, f := range fs {
		if f == "0" && !opb {
			break
		}
		neg := strings.HasPrefix(f, "-")
		f = strings.TrimPrefix(f, "-")
		if opb {
			if !strings.HasPrefix(f, "x") {
				return nil, false
			}
			f = f[1:]
		}
		v, err := strconv.Atoi(f)
		if err != nil || v < 1 || v > n {
			return nil, false
		}
		model[v-1] = !neg
		seen++
	}
	return model, seen == n
}

func vpMask(model []bool) int {
	a := 0
	for i, b := range model {
		if b {
			a |= 1 << uint(i)
		}
	}
	return a
}

// VP_C19_cli_cnf: the executable on .cnf files with each flag.
func VP_C19_cli_cnf() {
	n := zzvp.Param("n", 2)
	cnf := vpGenCNF(n, zzvp.Param("m", 2), zzvp.Param("k", 2))
	flags := []string{"", "-count", "-certified", "-mus", "-cp", "-verbose"}
	fl := flags[zzvp.Choose("flag", len(flags))]
	zzvp.SetFile("f.cnf", vpDimacs(n, cnf))
	args := []string{"gophersat"}
	if fl != "" {
		args = append(args, fl)
	}
	zzvp.SetArgs(append(args, "f.cnf"))
	code := zzvp.RunMain(main)
	out := zzvp.Output()
	zzvp.Obs("flag", fl)
	sLines, vLines, _, other := vpLines(out)
	nbModels := vpCountCNF(cnf, n)
	switch fl {
	case "-count":
		zzvp.Assert(code == 0, "non-zero exit status on a well-formed file")
		zzvp.Assert(len(other) == 1, "expected exactly one line with the count")
		if len(other) == 1 {
			v, err := strconv.Atoi(strings.TrimSpace(other[0]))
			zzvp.Assert(err == nil && v == nbModels, "the printed model count is wrong")
		}
		zzvp.Reach("count")
	case "-mus":
		if nbModels > 0 {
			zzvp.Assert(code != 0, "exit status 0 although no MUS exists (satisfiable file)")
			zzvp.Assert(len(sLines) == 0, "an answer line is printed for a satisfiable file with -mus")
			zzvp.Reach("mus-sat")
			return
		}
		zzvp.Assert(code == 0, "non-zero exit status on an unsatisfiable well-formed file")
		// parse the DIMACS part of the output
		var mus [][]int
		hdr := false
		for _, line := range other {
			fs := strings.Fields(line)
			if len(fs) == 4 && fs[0] == "p" && fs[1] == "cnf" {
				hdr = true
				continue
			}
			if !hdr || len(fs) == 0 || fs[len(fs)-1] != "0" {
				continue
			}
			var c []int
			ok := true
			for _, f := range fs[:len(fs)-1] {
				v, err := strconv.Atoi(f)
				if err != nil {
					ok = false
				}
				c = append(c, v)
			}
			if ok {
				mus = append(mus, c)
			}
		}
		zzvp.Assert(hdr, "no DIMACS header in the -mus output")
		zzvp.Assert(vpCountCNF(mus, n) == 0, "the printed subset is satisfiable")
		for i := range mus {
			rest := append(append([][]int{}, mus[:i]...), mus[i+1:]...)
			zzvp.Assert(vpCountCNF(rest, n) > 0, "the printed subset is not minimal")
		}
		for _, c := range mus {
			found := false
			for _, d := range cnf {
				if fmt.Sprint(c) == fmt.Sprint(d) {
					found = true
				}
			}
			zzvp.Assert(found, "the printed subset contains a clause that is not in the file")
		}
		zzvp.Reach("mus-unsat")
	default:
		zzvp.Assert(code == 0, "non-zero exit status on a well-formed file")
		zzvp.Assert(len(sLines) == 1, "expected exactly one answer line")
		if len(sLines) != 1 {
			return
		}
		switch sLines[0] {
		case "s SATISFIABLE":
			zzvp.Assert(nbModels > 0, "s SATISFIABLE printed for an unsatisfiable file")
			zzvp.Assert(len(vLines) == 1, "expected one v line")
			if len(vLines) == 1 {
				model, ok := vpParseV(vLines[0], n, false)
				zzvp.Assert(ok, "the v line does not give one value per declared variable")
				if ok {
					zzvp.Assert(vpCNFTrue(cnf, vpMask(model)), "the printed model does not satisfy the file")
				}
			}
			zzvp.Reach("sat")
		case "s UNSATISFIABLE":
			zzvp.Assert(nbModels == 0, "s UNSATISFIABLE printed for a satisfiable file")
			zzvp.Reach("unsat")
		default:
			zzvp.Assert(false, "unexpected answer line "+sLines[0])
		}
		if fl == "-certified" {
			db := append([][]int{}, cnf...)
			for _, line := range other {
				fs := strings.Fields(line)
				if len(fs) == 0 || fs[len(fs)-1] != "0" {
					zzvp.Assert(false, "unexpected line in certified output: "+line)
					continue
				}
				var c []int
				for _, f := range fs[:len(fs)-1] {
					v, err := strconv.Atoi(f)
					zzvp.Assert(err == nil, "certificate line is not a clause")
					c = append(c, v)
				}
				if nbModels == 0 {
					zzvp.Assert(vpRUP(db, n, c), "a certificate line is not derivable by unit propagation")
				} else {
					zzvp.Assert(vpImplied(cnf, n, c), "a line printed on a satisfiable file is not a consequence of it")
				}
				db = append(db, c)
			}
			if nbModels == 0 {
				zzvp.Assert(vpRUP(db, n, nil), "the empty clause is not derivable from the printed certificate")
			}
			zzvp.Reach("certified")
		}
	}
}

// VP_C19_cli_opb: the executable on .opb files (optimisation output).
func VP_C19_cli_opb() {
	n := zzvp.Param("n", 2)
	// one or two constraints sum w_i l_i >= d plus an optional objective
	type con struct {
		lits, ws []int
		d        int
	}
	var cons []con
	var line strings.Builder
	nc := zzvp.Choose("nc", zzvp.Param("nc", 2)) + 1
	k := 0
	for j := 0; j < nc; j++ {
		kj := zzvp.Choose("k", n) + 1
		if kj > k {
			k = kj
		}
		c := con{}
		for i := 0; i < kj; i++ {
			l := i + 1
			if zzvp.Choose("sign", 2) == 1 {
				l = -l
			}
			w := zzvp.Concretize(zzvp.Int("w", 1, zzvp.Param("W", 2)))
			c.lits, c.ws = append(c.lits, l), append(c.ws, w)
			if l > 0 {
				fmt.Fprintf(&line, "%d x%d ", w, l)
			} else {
				fmt.Fprintf(&line, "%d ~x%d ", w, -l)
			}
		}
		c.d = zzvp.Concretize(zzvp.Int("d", 0, kj*zzvp.Param("W", 2)+1))
		fmt.Fprintf(&line, ">= %d ;\n", c.d)
		cons = append(cons, c)
	}
	var cw []int
	text := ""
	withMin := zzvp.Choose("min", 2) == 1
	if withMin {
		text = "min:"
		for v := 1; v <= n; v++ {
			w := zzvp.Concretize(zzvp.Int("cw", 0, 2))
			cw = append(cw, w)
			text += fmt.Sprintf(" %d x%d", w, v)
		}
		text += " ;\n"
	}
	text += line.String()
	fl := []string{"", "-cp", "-count"}[zzvp.Choose("flag", zzvp.Param("flags", 3))]
	holds := func(a int) bool {
		for _, c := range cons {
			s := 0
			for i, l := range c.lits {
				if ((a>>uint(vpAbs(l)-1))&1 == 1) == (l > 0) {
					s += c.ws[i]
				}
			}
			if s < c.d {
				return false
			}
		}
		return true
	}
	cost := func(a int) int {
		c := 0
		for v := 0; v < len(cw); v++ {
			if (a>>uint(v))&1 == 1 {
				c += cw[v]
			}
		}
		return c
	}
	nv := k // variables the file mentions in constraints
	if withMin {
		nv = n
	}
	vpRunOPB(text, fl, nv, holds, cost)
}

// vpRunOPB runs the command on an .opb text and judges what it prints against
// the text's own semantics (holds / cost over nv variables).
func vpRunOPB(text, fl string, nv int, holds func(a int) bool, cost func(a int) int) {
	zzvp.SetFile("f.opb", text)
	args := []string{"gophersat"}
	if fl != "" {
		args = append(args, fl)
	}
	zzvp.SetArgs(append(args, "f.opb"))
	code := zzvp.RunMain(main)
	out := zzvp.Output()
	zzvp.Obs("text", text)
	zzvp.Obs("flag", fl)
	best, cnt := -1, 0
	for a := 0; a < 1<<uint(nv); a++ {
		if holds(a) {
			cnt++
			if c := cost(a); best == -1 || c < best {
				best = c
			}
		}
	}
	zzvp.Assert(code == 0, "non-zero exit status on a well-formed file")
	sLines, vLines, oLines, other := vpLines(out)
	if fl == "-count" {
		zzvp.Assert(len(other) == 1, "expected exactly one line with the count")
		if len(other) == 1 {
			v, err := strconv.Atoi(strings.TrimSpace(other[0]))
			zzvp.Assert(err == nil && v == cnt, "the printed model count is wrong")
		}
		zzvp.Reach("count")
		return
	}
	zzvp.Assert(len(sLines) == 1, "expected exactly one answer line")
	if len(sLines) != 1 {
		return
	}
	if best == -1 {
		zzvp.Assert(sLines[0] == "s UNSATISFIABLE", "the file is unsatisfiable but the answer is "+sLines[0])
		zzvp.Reach("unsat")
		return
	}
	zzvp.Assert(sLines[0] == "s OPTIMUM FOUND", "the file is satisfiable but the answer is "+sLines[0])
	prev := 1 << 30
	for _, o := range oLines {
		v, err := strconv.Atoi(strings.TrimSpace(o[2:]))
		zzvp.Assert(err == nil && v < prev, "o lines are not strictly decreasing")
		prev = v
	}
	zzvp.Assert(len(oLines) >= 1 && prev == best, "the last o line is not the true optimum")
	zzvp.Assert(len(vLines) == 1, "expected one v line")
	if len(vLines) == 1 {
		model, ok := vpParseV(vLines[0], nv, true)
		zzvp.Assert(ok, "the v line does not give one value per variable")
		if ok {
			a := vpMask(model)
			zzvp.Assert(holds(a), "the printed model violates the constraint")
			zzvp.Assert(cost(a) == best, "the printed model does not attain the optimum")
		}
	}
	zzvp.Reach("optimum")
}

// OPB skeletons for the command line: objective terms and constraints over 4-5 variables.
type vpOPBSk struct {
	obj  [][2]int // literal, coefficient
	cons [][]int  // literal, coefficient, ..., degree
}

var vpCLISkeletons = []vpOPBSk{
	// 0: one weighted constraint, objective over all its variables with mixed signs
	{[][2]int{{2, 4}, {-4, 3}, {1, 2}, {3, 4}}, [][]int{{-3, 4, 1, 2, 2, 3, -4, 1, 7}}},
	// 1: two constraints sharing variables, a unit constraint fixing an objective literal
	{[][2]int{{1, 3}, {2, 2}, {-3, 4}, {5, 1}}, [][]int{{1, 1, 2, 1, 3, 1, 2}, {-1, 2, 4, 1, 5, 2, 3}, {-5, 1, 1}}},
}

// VP_C19_cli_opb_skeleton: .opb files built from skeletons over 4-5 variables
// (several improving models before the optimum), signs chosen by the solver.
func VP_C19_cli_opb_skeleton() {
	sk := vpCLISkeletons[zzvp.Choose("skeleton", zzvp.Param("nskel", len(vpCLISkeletons)))]
	maxSym, cnt := zzvp.Param("maxsigns", 6), 0
	flip := func(l int) int {
		if cnt < maxSym {
			cnt++
			if zzvp.Choose("flip", 2) == 1 {
				return -l
			}
		}
		return l
	}
	term := func(w, l int) string {
		if l > 0 {
			return fmt.Sprintf("+%d x%d ", w, l)
		}
		return fmt.Sprintf("+%d ~x%d ", w, -l)
	}
	nv := 0
	var obj [][2]int
	text := "min: "
	for _, t := range sk.obj {
		l := flip(t[0])
		if vpAbs(l) > nv {
			nv = vpAbs(l)
		}
		obj = append(obj, [2]int{l, t[1]})
		text += term(t[1], l)
	}
	text += ";\n"
	type con struct {
		lits, ws []int
		d        int
	}
	var cons []con
	for _, c := range sk.cons {
		k := con{d: c[len(c)-1]}
		for i := 0; i+1 < len(c); i += 2 {
			l := flip(c[i])
			if vpAbs(l) > nv {
				nv = vpAbs(l)
			}
			k.lits, k.ws = append(k.lits, l), append(k.ws, c[i+1])
			text += term(c[i+1], l)
		}
		text += fmt.Sprintf(">= %d ;\n", k.d)
		cons = append(cons, k)
	}
	litTrue := func(l, a int) bool { return ((a>>uint(vpAbs(l)-1))&1 == 1) == (l > 0) }
	holds := func(a int) bool {
		for _, c := range cons {
			s := 0
			for i, l := range c.lits {
				if litTrue(l, a) {
					s += c.ws[i]
				}
			}
			if s < c.d {
				return false
			}
		}
		return true
	}
	cost := func(a int) int {
		c := 0
		for _, t := range obj {
			if litTrue(t[0], a) {
				c += t[1]
			}
		}
		return c
	}
	fl := []string{"", "-cp"}[zzvp.Choose("flag", zzvp.Param("flags", 2))]
	vpRunOPB(text, fl, nv, holds, cost)
}

// VP_C19_cli_misc: .wcnf and .bf files, unknown suffix, missing file, help.
func VP_C19_cli_misc() {
	kind := zzvp.Choose("kind", 5)
	switch kind {
	case 0: // wcnf
		n := 2
		cnf := vpGenCNF(n, 2, 2)
		var sb strings.Builder
		fmt.Fprintf(&sb, "p wcnf %d %d\n", n, len(cnf))
		var w []int
		for _, c := range cnf {
			wt := zzvp.Concretize(zzvp.Int("w", 1, 2))
			w = append(w, wt)
			fmt.Fprintf(&sb, "%d", wt)
			for _, l := range c {
				fmt.Fprintf(&sb, " %d", l)
			}
			sb.WriteString(" 0\n")
		}
		zzvp.SetFile("f.wcnf", sb.String())
		zzvp.SetArgs([]string{"gophersat", "f.wcnf"})
		code := zzvp.RunMain(main)
		zzvp.Obs("text", sb.String())
		zzvp.Assert(code == 0, "non-zero exit status on a well-formed wcnf file")
		sLines, vLines, oLines, _ := vpLines(zzvp.Output())
		best := 1 << 30
		costOf := func(a int) int {
			c := 0
			for i, cl := range cnf {
				if !vpClauseTrue(cl, a) {
					c += w[i]
				}
			}
			return c
		}
		for a := 0; a < 1<<uint(n); a++ {
			if c := costOf(a); c < best {
				best = c
			}
		}
		zzvp.Assert(len(sLines) == 1 && sLines[0] == "s OPTIMUM FOUND", "expected s OPTIMUM FOUND")
		prev := 1 << 30
		for _, o := range oLines {
			v, err := strconv.Atoi(strings.TrimSpace(o[2:]))
			zzvp.Assert(err == nil && v < prev, "o lines are not strictly decreasing")
			prev = v
		}
		zzvp.Assert(len(oLines) >= 1 && prev == best, "the last o line is not the true optimum")
		if len(vLines) == 1 {
			model, ok := vpParseV(vLines[0], n, true)
			zzvp.Assert(ok, "the v line does not give one value per declared variable (relaxation variables leak?)")
			if ok {
				zzvp.Assert(costOf(vpMask(model)) == best, "the printed model does not attain the optimum")
			}
		} else {
			zzvp.Assert(false, "expected one v line")
		}
		zzvp.Reach("wcnf")
	case 1: // bf
		texts := []string{"a & ^a", "a | b", "a -> b; a; ^b", "{a, b, c}; a", "^(a = b) & (a | ^b)", "(a;b) -> ^a"}
		t := texts[zzvp.Choose("bf", len(texts))]
		sat := []bool{false, true, false, true, true, true}
		idx := 0
		for i := range texts {
			if texts[i] == t {
				idx = i
			}
		}
		zzvp.SetFile("f.bf", t+"\n")
		zzvp.SetArgs([]string{"gophersat", "f.bf"})
		code := zzvp.RunMain(main)
		out := zzvp.Output()
		zzvp.Obs("text", t)
		zzvp.Assert(code == 0, "non-zero exit status on a well-formed bf file")
		if sat[idx] {
			zzvp.Assert(strings.Contains(out, "\nSATISFIABLE\n") || strings.HasPrefix(out, "SATISFIABLE\n"), "a satisfiable formula is not reported SATISFIABLE")
			zzvp.Assert(!strings.Contains(out, "UNSATISFIABLE"), "both answers printed")
		} else {
			zzvp.Assert(strings.Contains(out, "UNSATISFIABLE"), "an unsatisfiable formula is not reported UNSATISFIABLE")
		}
		zzvp.Reach("bf")
	case 2: // unknown suffix
		zzvp.SetFile("f.txt", "p cnf 1 1\n1 0\n")
		zzvp.SetArgs([]string{"gophersat", "f.txt"})
		code := zzvp.RunMain(main)
		sLines, _, _, _ := vpLines(zzvp.Output())
		zzvp.Assert(code != 0, "exit status 0 for a file of unknown kind")
		zzvp.Assert(len(sLines) == 0, "an answer line is printed for a file of unknown kind")
		zzvp.Reach("unknown")
	case 3: // missing file
		suffix := []string{".cnf", ".opb", ".wcnf", ".bf"}[zzvp.Choose("suffix", 4)]
		args := []string{"gophersat"}
		if zzvp.Choose("mus", 2) == 1 {
			args = append(args, "-mus")
		}
		zzvp.SetArgs(append(args, "missing"+suffix))
		code := zzvp.RunMain(main)
		sLines, _, _, _ := vpLines(zzvp.Output())
		zzvp.Assert(code != 0, "exit status 0 for an unreadable file")
		zzvp.Assert(len(sLines) == 0, "an answer line is printed for an unreadable file")
		zzvp.Reach("missing")
	default: // malformed content
		zzvp.SetFile("f.cnf", "p cnf 1 1\n1 x 0\n")
		zzvp.SetArgs([]string{"gophersat", "f.cnf"})
		code := zzvp.RunMain(main)
		sLines, _, _, _ := vpLines(zzvp.Output())
		zzvp.Assert(code != 0, "exit status 0 for an unreadable (malformed) file")
		zzvp.Assert(len(sLines) == 0, "an answer line is printed for a malformed file")
		zzvp.Reach("malformed")
	}
}
