package bf

import (
	"strconv"
	"strings"

	"github.com/crillab/gophersat/zzvp"
)

// The harness's own formula AST and evaluator (independent of package bf).
type vpF struct {
	kind int // 0 var, 1 true, 2 false, 3 not, 4 and, 5 or, 6 implies, 7 eq, 8 xor, 9 unique
	kids []*vpF
	v    int   // variable index (kind 0)
	us   []int // variable indices (kind 9)
}

var vpVarNames = []string{"a", "b", "c", "d", "e", "f", "g", "h", "i"}

// vpEval evaluates under x (possibly symbolic booleans), building a term.
func vpEval(f *vpF, x []bool) bool {
	switch f.kind {
	case 0:
		return x[f.v]
	case 1:
		return true
	case 2:
		return false
	case 3:
		return zzvp.Not(vpEval(f.kids[0], x))
	case 4:
		r := true
		for _, k := range f.kids {
			r = zzvp.And(r, vpEval(k, x))
		}
		return r
	case 5:
		r := false
		for _, k := range f.kids {
			r = zzvp.Or(r, vpEval(k, x))
		}
		return r
	case 6:
		return zzvp.Implies(vpEval(f.kids[0], x), vpEval(f.kids[1], x))
	case 7:
		return zzvp.Eqv(vpEval(f.kids[0], x), vpEval(f.kids[1], x))
	case 8:
		return zzvp.Not(zzvp.Eqv(vpEval(f.kids[0], x), vpEval(f.kids[1], x)))
	default:
		n := 0
		for _, u := range f.us {
			n += zzvp.Ite(x[u], 1, 0)
		}
		return n == 1
	}
}

func vpUsesVar(f *vpF, used []bool) {
	if f.kind == 0 {
		used[f.v] = true
	}
	for _, u := range f.us {
		used[u] = true
	}
	for _, k := range f.kids {
		vpUsesVar(k, used)
	}
}

type vpGenCfg struct {
	budget   int // remaining connective nodes
	maxDepth int
	nvars    int // leaves range over the first nvars names
	arity    int // max arity of and/or
	uniq     int // max size of exactly-one groups (0 = none)
	consts   bool
	posOnly  bool // exactly-one groups only under an even number of negations
	both     int  // number of enclosing equivalence / exclusive-or operands: inside them a sub-formula occurs at both polarities, whatever the number of negations
}

// vpGen builds, in parallel, the harness AST and the bf.Formula.
func vpGen(c *vpGenCfg, depth int, neg bool) (*vpF, Formula) {
	if c.both > 0 {
		neg = true
	}
	nLeaf := c.nvars
	if c.consts {
		nLeaf += 2
	}
	nConn := 0
	if c.budget > 0 && depth < c.maxDepth {
		nConn = 6 // not, and, or, implies, eq, xor
		if c.uniq > 0 && !(c.posOnly && neg) {
			nConn = 7
		}
	}
	k := zzvp.Choose("node", nLeaf+nConn)
	if k < c.nvars {
		return &vpF{kind: 0, v: k}, Var(vpVarNames[k])
	}
	if k < nLeaf {
		if k == c.nvars {
			return &vpF{kind: 1}, True
		}
		return &vpF{kind: 2}, False
	}
	c.budget--
	switch k - nLeaf {
	case 0:
		a, fa := vpGen(c, depth+1, !neg)
		return &vpF{kind: 3, kids: []*vpF{a}}, Not(fa)
	case 1, 2:
		n := zzvp.Choose("arity", c.arity+1)
		var kids []*vpF
		var fs []Formula
		for i := 0; i < n; i++ {
			a, fa := vpGen(c, depth+1, neg)
			kids = append(kids, a)
			fs = append(fs, fa)
		}
		if k-nLeaf == 1 {
			return &vpF{kind: 4, kids: kids}, And(fs...)
		}
		return &vpF{kind: 5, kids: kids}, Or(fs...)
	case 3:
		a, fa := vpGen(c, depth+1, !neg)
		b, fb := vpGen(c, depth+1, neg)
		return &vpF{kind: 6, kids: []*vpF{a, b}}, Implies(fa, fb)
	case 4:
		c.both++
		a, fa := vpGen(c, depth+1, true) // both polarities
		b, fb := vpGen(c, depth+1, true)
		c.both--
		return &vpF{kind: 7, kids: []*vpF{a, b}}, Eq(fa, fb)
	case 5:
		c.both++
		a, fa := vpGen(c, depth+1, true)
		b, fb := vpGen(c, depth+1, true)
		c.both--
		return &vpF{kind: 8, kids: []*vpF{a, b}}, Xor(fa, fb)
	default:
		maxSz := c.uniq
		if neg && maxSz > 4 && zzvp.Param("kf_unique", 1) == 1 {
			// known finding C11-negated-unique-aux: groups that need auxiliary
			// variables (5 or more) are only claimed where they occur positively
			maxSz = 4
		}
		sz := zzvp.Choose("usize", maxSz+1)
		us := make([]int, sz)
		names := make([]string, sz)
		for i := range us {
			us[i] = i
			names[i] = vpVarNames[i]
		}
		return &vpF{kind: 9, us: us}, Unique(names...)
	}
}

// vpGenSpine: op1(l1, op2(l2, ... opD(lD, lD+1))) with op in {and, or}, and
// l_i = variable i with a chosen sign: alternation depth D with few shapes.
func vpGenSpine(d int, i int) (*vpF, Formula) {
	leaf := func(i int) (*vpF, Formula) {
		var a *vpF = &vpF{kind: 0, v: i}
		var f Formula = Var(vpVarNames[i])
		if zzvp.Choose("sign", 2) == 1 {
			return &vpF{kind: 3, kids: []*vpF{a}}, Not(f)
		}
		return a, f
	}
	a, fa := leaf(i)
	if d == 0 {
		return a, fa
	}
	b, fb := vpGenSpine(d-1, i+1)
	if zzvp.Choose("op", 2) == 0 {
		return &vpF{kind: 4, kids: []*vpF{a, b}}, And(fa, fb)
	}
	return &vpF{kind: 5, kids: []*vpF{a, b}}, Or(fa, fb)
}

// vpGenWide: a wide disjunction (or conjunction) of k signed literals and one
// conjunction (or disjunction) of two literals, placed first or last.
func vpGenWide(K int) (*vpF, Formula) {
	leaf := func(i int) (*vpF, Formula) {
		var a *vpF = &vpF{kind: 0, v: i}
		var f Formula = Var(vpVarNames[i])
		if zzvp.Choose("sign", 2) == 1 {
			return &vpF{kind: 3, kids: []*vpF{a}}, Not(f)
		}
		return a, f
	}
	k := zzvp.Choose("width", K+1)
	outerOr := zzvp.Choose("outer", 2) == 0
	i1, f1 := leaf(k)
	i2, f2 := leaf(k + 1)
	var inner *vpF
	var innerF Formula
	if outerOr {
		inner, innerF = &vpF{kind: 4, kids: []*vpF{i1, i2}}, And(f1, f2)
	} else {
		inner, innerF = &vpF{kind: 5, kids: []*vpF{i1, i2}}, Or(f1, f2)
	}
	var kids []*vpF
	var fs []Formula
	for i := 0; i < k; i++ {
		a, f := leaf(i)
		kids, fs = append(kids, a), append(fs, f)
	}
	if zzvp.Choose("inner-first", 2) == 1 {
		kids, fs = append([]*vpF{inner}, kids...), append([]Formula{innerF}, fs...)
	} else {
		kids, fs = append(kids, inner), append(fs, innerF)
	}
	if outerOr {
		return &vpF{kind: 5, kids: kids}, Or(fs...)
	}
	return &vpF{kind: 4, kids: kids}, And(fs...)
}

// vpGenChain: a chain of D equivalences / exclusive-ors over signed leaves,
// nested to the left or to the right (each Eq/Xor duplicates its operands in
// the translation, so sub-formulas repeat under different guards).
func vpGenChain(D int) (*vpF, Formula) {
	leaf := func(i int) (*vpF, Formula) {
		var a *vpF = &vpF{kind: 0, v: i}
		var f Formula = Var(vpVarNames[i])
		if zzvp.Choose("sign", 2) == 1 {
			return &vpF{kind: 3, kids: []*vpF{a}}, Not(f)
		}
		return a, f
	}
	nv := zzvp.Param("chainvars", D+1)
	left := zzvp.Choose("nest-left", 2) == 1
	acc, accF := leaf(0)
	for i := 1; i <= D; i++ {
		b, fb := leaf(i % nv)
		kind := 7
		if zzvp.Choose("op", 2) == 1 {
			kind = 8
		}
		mk := func(x, y Formula) Formula {
			if kind == 7 {
				return Eq(x, y)
			}
			return Xor(x, y)
		}
		if left {
			acc, accF = &vpF{kind: kind, kids: []*vpF{acc, b}}, mk(accF, fb)
		} else {
			acc, accF = &vpF{kind: kind, kids: []*vpF{b, acc}}, mk(fb, accF)
		}
	}
	return acc, accF
}

// vpGenAny picks the generator according to the parameters.
// vpGenGroups2: op(Unique(g1), Unique(g2)) with op in {and, or}; each group
// takes 1, 4, 5 or max consecutive names starting at offset 0..2, optionally
// with its second and third member swapped (same members, other order).
func vpGenGroups2(max int) (*vpF, Formula) {
	sizes := []int{1, 4, 5, max}
	group := func() (*vpF, Formula) {
		sz := sizes[zzvp.Choose("usize", len(sizes))]
		start := zzvp.Choose("ustart", 3)
		us := make([]int, sz)
		for i := range us {
			us[i] = start + i
		}
		if sz >= 3 && zzvp.Choose("uswap", 2) == 1 {
			us[1], us[2] = us[2], us[1]
		}
		names := make([]string, sz)
		for i, u := range us {
			names[i] = vpVarNames[u]
		}
		return &vpF{kind: 9, us: us}, Unique(names...)
	}
	a, fa := group()
	b, fb := group()
	if zzvp.Choose("op", 2) == 0 {
		return &vpF{kind: 4, kids: []*vpF{a, b}}, And(fa, fb)
	}
	return &vpF{kind: 5, kids: []*vpF{a, b}}, Or(fa, fb)
}

func vpGenAny(c *vpGenCfg) (*vpF, Formula) {
	if g := zzvp.Param("groups2", 0); g > 0 {
		return vpGenGroups2(g)
	}
	if w := zzvp.Param("wide", 0); w > 0 {
		return vpGenWide(w)
	}
	if d := zzvp.Param("chain", 0); d > 0 {
		ast, f := vpGenChain(d)
		if zzvp.Param("context", 0) == 1 {
			kids := []*vpF{ast}
			fs := []Formula{f}
			for i := 0; i < zzvp.Param("chainvars", d+1); i++ {
				switch zzvp.Choose("ctx", 3) {
				case 1:
					kids = append(kids, &vpF{kind: 0, v: i})
					fs = append(fs, Var(vpVarNames[i]))
				case 2:
					kids = append(kids, &vpF{kind: 3, kids: []*vpF{{kind: 0, v: i}}})
					fs = append(fs, Not(Var(vpVarNames[i])))
				}
			}
			return &vpF{kind: 4, kids: kids}, And(fs...)
		}
		return ast, f
	}
	if d := zzvp.Param("spine", 0); d > 0 {
		ast, f := vpGenSpine(d, 0)
		if zzvp.Param("context", 0) == 1 {
			// conjoin unit literals on a chosen subset of the variables
			kids := []*vpF{ast}
			fs := []Formula{f}
			for i := 0; i <= d; i++ {
				switch zzvp.Choose("ctx", 3) {
				case 1:
					kids = append(kids, &vpF{kind: 0, v: i})
					fs = append(fs, Var(vpVarNames[i]))
				case 2:
					kids = append(kids, &vpF{kind: 3, kids: []*vpF{{kind: 0, v: i}}})
					fs = append(fs, Not(Var(vpVarNames[i])))
				}
			}
			return &vpF{kind: 4, kids: kids}, And(fs...)
		}
		return ast, f
	}
	return vpGen(c, 0, false)
}

func vpCfg() *vpGenCfg {
	return &vpGenCfg{
		budget:   zzvp.Param("nodes", 2),
		maxDepth: zzvp.Param("depth", 3),
		nvars:    zzvp.Param("nvars", 2),
		arity:    zzvp.Param("arity", 2),
		uniq:     zzvp.Param("uniq", 0),
		consts:   zzvp.Param("consts", 1) == 1,
		posOnly:  zzvp.Param("posonly", 0) == 1,
	}
}

func vpSymX() []bool {
	x := make([]bool, len(vpVarNames))
	for i := range x {
		x[i] = zzvp.Bool("x")
	}
	return x
}

// VP_C11_bf_solve: bf.Solve against the truth table.
func VP_C11_bf_solve() {
	c := vpCfg()
	ast, f := vpGenAny(c)
	zzvp.Obs("formula", f.String())
	m := Solve(f)
	x := vpSymX()
	if m == nil {
		zzvp.Reach("nil")
		zzvp.Assert(zzvp.Not(vpEval(ast, x)), "Solve returned nil but some assignment satisfies the formula")
		return
	}
	zzvp.Reach("model")
	y := make([]bool, len(x))
	for i, name := range vpVarNames {
		if v, ok := m[name]; ok {
			y[i] = v
		} else {
			y[i] = x[i] // arbitrary completion
		}
	}
	zzvp.Assert(vpEval(ast, y), "the returned assignment (completed arbitrarily) does not satisfy the formula")
}

// ---- Dimacs ----

type vpWriter struct{ buf []byte }

func (w *vpWriter) Write(p []byte) (int, error) {
	w.buf = append(w.buf, p...)
	return len(p), nil
}

// VP_C12_bf_dimacs: the exported CNF has exactly the formula's models over the named variables.
func VP_C12_bf_dimacs() {
	c := vpCfg()
	c.posOnly = true
	ast, f := vpGenAny(c)
	zzvp.Obs("formula", f.String())
	w := &vpWriter{}
	err := Dimacs(f, w)
	zzvp.Assert(err == nil, "Dimacs returned an error")
	text := string(w.buf)
	lines := strings.Split(strings.TrimRight(text, "\n"), "\n")
	zzvp.Assert(len(lines) >= 1 && strings.HasPrefix(lines[0], "p cnf "), "missing DIMACS header")
	hdr := strings.Fields(lines[0])
	zzvp.Assert(len(hdr) == 4, "malformed header")
	nbVars, e1 := strconv.Atoi(hdr[2])
	nbClauses, e2 := strconv.Atoi(hdr[3])
	zzvp.Assert(e1 == nil && e2 == nil, "malformed header counts")
	idxOf := map[string]int{}
	seenIdx := map[int]bool{}
	var clauses [][]int
	for _, line := range lines[1:] {
		if strings.HasPrefix(line, "c ") {
			kv := strings.Split(line[2:], "=")
			zzvp.Assert(len(kv) == 2, "malformed name comment")
			idx, e := strconv.Atoi(kv[1])
			zzvp.Assert(e == nil && idx >= 1 && idx <= nbVars, "name comment index out of range")
			zzvp.Assert(!seenIdx[idx], "two names mapped to the same index")
			_, dup := idxOf[kv[0]]
			zzvp.Assert(!dup, "a name is mapped twice")
			seenIdx[idx] = true
			idxOf[kv[0]] = idx
			continue
		}
		fs := strings.Fields(line)
		zzvp.Assert(len(fs) >= 1 && fs[len(fs)-1] == "0", "clause line not terminated by 0")
		var cl []int
		for _, t := range fs[:len(fs)-1] {
			l, e := strconv.Atoi(t)
			zzvp.Assert(e == nil && l != 0 && l <= nbVars && -l <= nbVars, "literal out of range")
			cl = append(cl, l)
		}
		clauses = append(clauses, cl)
	}
	zzvp.Assert(len(clauses) == nbClauses, "header clause count differs from the number of clauses")
	// every name in the table is a formula variable
	used := make([]bool, len(vpVarNames))
	vpUsesVar(ast, used)
	for name := range idxOf {
		ok := false
		for i, n := range vpVarNames {
			if n == name && used[i] {
				ok = true
			}
		}
		zzvp.Assert(ok, "the name table mentions a name that is not a variable of the formula")
	}
	// CNF as a term over v[1..nbVars]
	cnfTerm := func(v []bool) bool {
		r := true
		for _, cl := range clauses {
			t := false
			for _, l := range cl {
				if l > 0 {
					t = zzvp.Or(t, v[l])
				} else {
					t = zzvp.Or(t, zzvp.Not(v[-l]))
				}
			}
			r = zzvp.And(r, t)
		}
		return r
	}
	// (i) every model of the export restricts to a model of the formula
	x := vpSymX()
	v := make([]bool, nbVars+1)
	for i := 1; i <= nbVars; i++ {
		v[i] = zzvp.Bool("y")
	}
	for i, name := range vpVarNames {
		if idx, ok := idxOf[name]; ok {
			v[idx] = x[i]
		}
	}
	zzvp.Assert(zzvp.Implies(cnfTerm(v), vpEval(ast, x)), "a model of the exported CNF does not restrict to a model of the formula")
	// (ii) every model of the formula extends to a model of the export
	var usedIdx []int
	for i := range vpVarNames {
		if used[i] {
			usedIdx = append(usedIdx, i)
		}
	}
	for a := 0; a < 1<<uint(len(usedIdx)); a++ {
		xa := make([]bool, len(vpVarNames))
		for j, i := range usedIdx {
			xa[i] = (a>>uint(j))&1 == 1
		}
		if !vpEval(ast, xa) {
			continue
		}
		va := make([]bool, nbVars+1)
		copy(va, v)
		for i, name := range vpVarNames {
			if idx, ok := idxOf[name]; ok {
				va[idx] = xa[i]
			}
		}
		zzvp.Assert(zzvp.Exists(cnfTerm(va)), "a model of the formula does not extend to a model of the exported CNF")
		zzvp.Reach("extends")
	}
	zzvp.Reach("dimacs")
}

// VP_KF_C11_1: concrete witness of known finding C11-negated-unique-aux.
func VP_KF_C11_1() {
	f := Not(Unique("a", "b", "c", "d", "e"))
	m := Solve(f)
	zzvp.Assert(m != nil, "Not(Unique(a..e)) is satisfiable")
	n := 0
	for _, v := range []string{"a", "b", "c", "d", "e"} {
		if m[v] {
			n++
		}
	}
	zzvp.Assert(n != 1, "the returned assignment makes exactly one of a..e true although the group is negated")
}

// VP_C16_bf: two independent bf.Solve calls on two goroutines under the happens-before monitor.
func VP_C16_bf() {
	forms := []func() Formula{
		func() Formula { return And(Or(Var("a"), Var("b")), Not(Var("a"))) },
		func() Formula { return Unique("a", "b", "c", "d", "e") },
		func() Formula { return And(Xor(Var("x"), Var("y")), Eq(Var("x"), Var("y"))) },
	}
	k1 := zzvp.Choose("f1", len(forms))
	k2 := zzvp.Choose("f2", len(forms))
	use := func(k int) int {
		m := Solve(forms[k]())
		if m == nil {
			return -1
		}
		n := 0
		for _, name := range []string{"a", "b", "c", "d", "e", "x", "y"} {
			if m[name] {
				n++
			}
		}
		return n
	}
	w1, w2 := use(k1), use(k2)
	zzvp.RaceDetect(true)
	zzvp.Preemptions(0)
	zzvp.Schedule(1)
	c1 := make(chan int, 1)
	c2 := make(chan int, 1)
	go func() { c1 <- use(k1) }()
	go func() { c2 <- use(k2) }()
	r1, r2 := <-c1, <-c2
	zzvp.Schedule(0)
	zzvp.RaceDetect(false)
	zzvp.Assert(r1 == w1 && r2 == w2, "bf.Solve run concurrently with another call returned something else than when run alone")
	zzvp.Reach("two-uses")
}
