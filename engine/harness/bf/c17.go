package bf

import (
	"strings"

	"github.com/crillab/gophersat/zzvp"
)

// Harness-side syntax tree for the documented text syntax.
type vpT struct {
	kind int // 0 ident, 1 not, 2 binary, 3 exactly-one group
	op   int // binary: 0 ';' 1 '=' 2 '->' 3 '|' 4 '&'
	l, r *vpT
	id   int
	ids  []int
	wrap bool // redundant parentheses around this node
}

var vpIdents = []string{"a", "b", "ab"}
var vpOps = []string{";", "=", "->", "|", "&"}

func (t *vpT) prec() int {
	switch t.kind {
	case 2:
		return t.op
	case 1:
		return 5
	}
	return 6
}

// reference reading: documented priorities, right-nested repetition.
func vpRefEval(t *vpT, x []bool) bool {
	switch t.kind {
	case 0:
		return x[t.id]
	case 1:
		return zzvp.Not(vpRefEval(t.l, x))
	case 3:
		n := 0
		for _, i := range t.ids {
			n += zzvp.Ite(x[i], 1, 0)
		}
		return n == 1
	}
	a, b := vpRefEval(t.l, x), vpRefEval(t.r, x)
	switch t.op {
	case 0, 4:
		return zzvp.And(a, b)
	case 1:
		return zzvp.Eqv(a, b)
	case 2:
		return zzvp.Implies(a, b)
	default:
		return zzvp.Or(a, b)
	}
}

// tokens renders t as a token list with every needed parenthesis (and the
// redundant ones chosen by the generator).
func vpTokens(t *vpT) []string {
	var out []string
	paren := func(c *vpT, need bool) {
		if need {
			out = append(out, "(")
		}
		out = append(out, vpTokens(c)...)
		if need {
			out = append(out, ")")
		}
	}
	if t.wrap {
		out = append(out, "(")
	}
	switch t.kind {
	case 0:
		out = append(out, vpIdents[t.id])
	case 1:
		out = append(out, "^")
		paren(t.l, t.l.prec() < 5 && !t.l.wrap)
	case 3:
		out = append(out, "{")
		for i, id := range t.ids {
			if i > 0 {
				out = append(out, ",")
			}
			out = append(out, vpIdents[id])
		}
		out = append(out, "}")
	default:
		// the same operator nests to the right: a left operand of the same
		// (or lower) priority needs parentheses
		paren(t.l, t.l.prec() <= t.op && !t.l.wrap)
		out = append(out, vpOps[t.op])
		paren(t.r, t.r.prec() < t.op && !t.r.wrap)
	}
	if t.wrap {
		out = append(out, ")")
	}
	return out
}

type vpSynCfg struct {
	bin     int // remaining binary operators
	nots    int // remaining negations
	groups  int // remaining exactly-one groups
	wraps   int // remaining redundant parenthesis pairs
	semiTop bool
}

func vpGenSyntax(c *vpSynCfg, depth int, inParen bool) *vpT {
	var t *vpT
	choices := 1 // ident
	if c.bin > 0 && depth < 4 {
		choices = 2
	}
	k := zzvp.Choose("syn", choices)
	if k == 1 {
		c.bin--
		nops := len(vpOps)
		op := zzvp.Choose("op", nops)
		if op == 0 && depth > 0 && zzvp.Param("semi_inside", 1) == 0 {
			op = 4
		}
		t = &vpT{kind: 2, op: op}
		t.l = vpGenSyntax(c, depth+1, false)
		t.r = vpGenSyntax(c, depth+1, false)
	} else {
		if c.groups > 0 && zzvp.Choose("group", 2) == 1 {
			c.groups--
			n := zzvp.Choose("gsize", 3) + 1
			ids := make([]int, n)
			for i := range ids {
				ids[i] = i
			}
			t = &vpT{kind: 3, ids: ids}
		} else {
			t = &vpT{kind: 0, id: zzvp.Choose("id", len(vpIdents))}
		}
	}
	for c.nots > 0 && zzvp.Choose("not", 2) == 1 {
		c.nots--
		t = &vpT{kind: 1, l: t}
	}
	if c.wraps > 0 && zzvp.Choose("wrap", 2) == 1 {
		c.wraps--
		t.wrap = true
	}
	return t
}

func vpJoin(toks []string, sp string) string {
	var sb strings.Builder
	for i, t := range toks {
		if i > 0 {
			prev := toks[i-1]
			// identifiers must not be glued together
			if sp == "" && vpIsIdent(prev) && vpIsIdent(t) {
				sb.WriteString(" ")
			}
			sb.WriteString(sp)
		}
		sb.WriteString(t)
	}
	return sb.String()
}

func vpIsIdent(t string) bool {
	for _, id := range vpIdents {
		if id == t {
			return true
		}
	}
	return false
}

func vpSynCfgFromParams() *vpSynCfg {
	return &vpSynCfg{bin: zzvp.Param("bin", 2), nots: zzvp.Param("nots", 1), groups: zzvp.Param("groups", 1), wraps: zzvp.Param("wraps", 1)}
}

var vpSpacings = []string{"", " ", "\n\t"}

// VP_C17_bf_parse: every rendering parses, and reads with the documented priorities.
func VP_C17_bf_parse() {
	c := vpSynCfgFromParams()
	t := vpGenSyntax(c, 0, false)
	sp := " "
	if zzvp.Param("spacing", 1) == 1 {
		sp = vpSpacings[zzvp.Choose("spacing", len(vpSpacings))]
	}
	text := vpJoin(vpTokens(t), sp)
	zzvp.Obs("text", text)
	f, err := Parse(strings.NewReader(text))
	zzvp.Assert(err == nil, "a formula written in the documented syntax is rejected")
	if err != nil {
		return
	}
	zzvp.Assert(f != nil, "no formula returned")
	x := make([]bool, len(vpIdents))
	model := map[string]bool{}
	for i, id := range vpIdents {
		x[i] = zzvp.Bool("x")
		model[id] = x[i]
	}
	got := f.Eval(model)
	zzvp.Assert(zzvp.Eqv(got, vpRefEval(t, x)), "the parsed formula is not equivalent to the documented reading of the text")
	zzvp.Reach("parsed")
}

// VP_C17_bf_parse_err: token-level corruptions must give an error, no formula, no panic.
func VP_C17_bf_parse_err() {
	c := vpSynCfgFromParams()
	t := vpGenSyntax(c, 0, false)
	toks := vpTokens(t)
	kind := zzvp.Choose("corruption", 5)
	var bad []string
	switch kind {
	case 0: // delete an operand (identifier outside a group)
		var pos []int
		depth := 0
		for i, tk := range toks {
			if tk == "{" {
				depth++
			}
			if tk == "}" {
				depth--
			}
			if depth == 0 && vpIsIdent(tk) {
				pos = append(pos, i)
			}
		}
		if len(pos) == 0 {
			zzvp.Assume(false)
		}
		i := pos[zzvp.Choose("pos", len(pos))]
		bad = append(append([]string{}, toks[:i]...), toks[i+1:]...)
		// a text that now ends with ';' is tolerated by design (trailing separator): doubtful, excluded
		if len(bad) > 0 && bad[len(bad)-1] == ";" {
			zzvp.Assume(false)
		}
		if len(bad) == 0 {
			zzvp.Assume(false)
		}
	case 1: // duplicate a binary operator
		var pos []int
		for i, tk := range toks {
			for _, op := range vpOps {
				if tk == op {
					pos = append(pos, i)
				}
			}
		}
		if len(pos) == 0 {
			zzvp.Assume(false)
		}
		i := pos[zzvp.Choose("pos", len(pos))]
		bad = append(append(append([]string{}, toks[:i+1]...), toks[i]), toks[i+1:]...)
	case 2: // unbalanced: extra closing parenthesis at the end
		bad = append(append([]string{}, toks...), ")")
	case 3: // unbalanced: extra opening parenthesis at the start
		bad = append([]string{"("}, toks...)
	default: // trailing token
		bad = append(append([]string{}, toks...), "a")
	}
	text := vpJoin(bad, " ")
	zzvp.Obs("text", text)
	f, err := Parse(strings.NewReader(text))
	zzvp.Assert(err != nil, "a malformed text is accepted")
	zzvp.Assert(f == nil, "a formula is returned together with an error")
	zzvp.Reach("rejected")
}
