package explain

import (
	"fmt"
	"strings"

	"github.com/crillab/gophersat/zzvp"
)

// ---- independent oracles (no code shared with explain or solver) ----

func vpAbs(x int) int {
	if x < 0 {
		return -x
	}
	return x
}

func vpHolds(cl []int, a int) bool {
	for _, l := range cl {
		if ((a>>uint(vpAbs(l)-1))&1 == 1) == (l > 0) {
			return true
		}
	}
	return false
}

func vpSatCNF(clauses [][]int, n int) bool {
	for a := 0; a < 1<<uint(n); a++ {
		all := true
		for _, cl := range clauses {
			if !vpHolds(cl, a) {
				all = false
				break
			}
		}
		if all {
			return true
		}
	}
	return false
}

func vpImplied(clauses [][]int, n int, c []int) bool {
	for a := 0; a < 1<<uint(n); a++ {
		all := true
		for _, cl := range clauses {
			if !vpHolds(cl, a) {
				all = false
				break
			}
		}
		if all && !vpHolds(c, a) {
			return false
		}
	}
	return true
}

// vpRUP: c derivable from clauses by reverse unit propagation (clauses are sets of literals).
func vpRUP(clauses [][]int, n int, c []int) bool {
	val := make([]int, n+1)
	set := func(l int) bool {
		v := vpAbs(l)
		want := 1
		if l < 0 {
			want = -1
		}
		if val[v] == -want {
			return false
		}
		val[v] = want
		return true
	}
	for _, l := range c {
		if !set(-l) {
			return true
		}
	}
	for {
		changed := false
		for _, cl := range clauses {
			unassigned, sat, last := 0, false, 0
			for _, l := range cl {
				v := vpAbs(l)
				switch {
				case val[v] == 0:
					if unassigned == 0 || last != l {
						unassigned++
					}
					last = l
				case (val[v] == 1) == (l > 0):
					sat = true
				}
			}
			if sat {
				continue
			}
			if unassigned == 0 {
				return true
			}
			if unassigned == 1 {
				if !set(last) {
					return true
				}
				changed = true
			}
		}
		if !changed {
			return false
		}
	}
}

func vpTaut(c []int) bool {
	for i, l := range c {
		for _, m := range c[i+1:] {
			if l == -m {
				return true
			}
		}
	}
	return false
}

// vpConcreteCNF: m<=M clauses of <=K literals over n variables, all concretised.
func vpConcreteCNF(n, M, K int, tag string) [][]int {
	m := zzvp.Choose(tag+"m", M+1)
	cnf := make([][]int, m)
	for j := range cnf {
		k := zzvp.Choose(tag+"k", K+1)
		if tag == "" && k == 0 {
			k = 1 // the problem itself has no empty clause (certificates may)
		}
		cnf[j] = make([]int, k)
		for i := range cnf[j] {
			// the solver enumerates the feasible literal values
			l := zzvp.Int(tag+"l", -n, n)
			zzvp.Assume(l != 0)
			cnf[j][i] = zzvp.Concretize(l)
		}
	}
	return cnf
}

func vpDimacs(n int, cnf [][]int) string {
	var sb strings.Builder
	fmt.Fprintf(&sb, "c generated\np cnf %d %d\n", n, len(cnf))
	for _, c := range cnf {
		for _, l := range c {
			fmt.Fprintf(&sb, "%d ", l)
		}
		sb.WriteString("0\n")
	}
	return sb.String()
}

func vpCertText(cert [][]int) string {
	var sb strings.Builder
	for i, c := range cert {
		if i == 1 {
			sb.WriteString("c a comment inside the certificate\n\n")
		}
		for _, l := range c {
			fmt.Fprintf(&sb, "%d ", l)
		}
		sb.WriteString("0\n")
	}
	return sb.String()
}

func vpCopy2(x [][]int) [][]int {
	r := make([][]int, len(x))
	for i := range x {
		r[i] = append([]int(nil), x[i]...)
	}
	return r
}

func vpSame2(x, y [][]int) bool {
	if len(x) != len(y) {
		return false
	}
	for i := range x {
		if len(x[i]) != len(y[i]) {
			return false
		}
		for j := range x[i] {
			if x[i][j] != y[i][j] {
				return false
			}
		}
	}
	return true
}

// VP_C08_checker: (problem, arbitrary certificate) pairs through both entry points.
func VP_C08_checker() {
	n := zzvp.Param("n", 2)
	var F, cert [][]int
	if zzvp.Param("shape", 0) == 2 {
		// four binary clauses over variables 1..2 with chosen signs (the all-signs square is
		// unsatisfiable but not refutable by unit propagation), and a short certificate
		F = make([][]int, 4)
		for j := range F {
			F[j] = []int{1, 2}
			for i := range F[j] {
				if zzvp.Choose("sign", 2) == 1 {
					F[j][i] = -F[j][i]
				}
			}
		}
		cert = vpConcreteCNF(n, zzvp.Param("cm", 1), zzvp.Param("ck", 1), "c")
	} else if zzvp.Param("shape", 0) == 1 {
		// a unit clause and a binary clause; a certificate of a binary line followed by a line of <=1 literal
		lit := func(tag string) int {
			l := zzvp.Int(tag, -n, n)
			zzvp.Assume(l != 0)
			return zzvp.Concretize(l)
		}
		F = [][]int{{lit("l")}, {lit("l"), lit("l")}}
		cert = [][]int{{lit("cl"), lit("cl")}}
		if zzvp.Choose("second", 2) == 1 {
			cert = append(cert, []int{lit("cl")})
		} else {
			cert = append(cert, []int{})
		}
	} else {
		F = vpConcreteCNF(n, zzvp.Param("m", 2), zzvp.Param("k", 2), "")
		cert = vpConcreteCNF(n, zzvp.Param("cm", 2), zzvp.Param("ck", 2), "c")
	}
	pb, err := ParseCNF(strings.NewReader(vpDimacs(n, F)))
	zzvp.Assert(err == nil, "ParseCNF failed on a well-formed problem")
	if err != nil {
		return
	}
	before := vpCopy2(pb.Clauses)
	unitsBefore := append([]int(nil), pb.units...)
	useChan := zzvp.Choose("entry", 2) == 1
	run := func() (bool, error) {
		if useChan {
			ch := make(chan string, len(cert)+3)
			for i, c := range cert {
				if i == 1 {
					ch <- "c comment"
					ch <- ""
				}
				line := ""
				for _, l := range c {
					line += fmt.Sprintf("%d ", l)
				}
				ch <- line + "0"
			}
			close(ch)
			return pb.UnsatChan(ch)
		}
		return pb.Unsat(strings.NewReader(vpCertText(cert)))
	}
	valid, err := run()
	zzvp.Assert(err == nil, "checker returned an error on well-formed certificate lines")
	// soundness
	upto := len(cert)
	if useChan {
		for i, c := range cert {
			if len(c) == 0 {
				upto = i + 1
				break
			}
		}
	}
	allImplied := true
	for _, c := range cert[:upto] {
		if !vpImplied(F, n, c) {
			allImplied = false
		}
	}
	if valid {
		zzvp.Reach("valid")
		zzvp.Assert(allImplied, "certificate reported valid although a line is not a consequence of the problem")
	} else {
		zzvp.Reach("invalid")
	}
	// completeness w.r.t. unit propagation (lines without complementary literals)
	db := vpCopy2(F)
	allRUP := true
	for _, c := range cert[:upto] {
		if vpTaut(c) || !vpRUP(db, n, c) {
			allRUP = false
			break
		}
		db = append(db, c)
	}
	if allRUP {
		zzvp.Assert(valid, "every line is derivable by unit propagation but the certificate is rejected")
	}
	// reusable with the same answer: the same certificate again, then other
	// certificates (the empty clause alone; each single line of the first
	// certificate), must get on the used problem the answer they get on a
	// freshly parsed one. Changes of internal fields are only recorded.
	same := len(pb.Clauses) == pb.NbClauses && vpSame2(pb.Clauses, before) && len(pb.units) == len(unitsBefore)
	for i := range unitsBefore {
		if same && pb.units[i] != unitsBefore[i] {
			same = false
		}
	}
	if !same {
		zzvp.Reach("internal-state-changed")
	}
	valid2, _ := run()
	zzvp.Assert(valid2 == valid, "checking the same certificate twice gives different answers")
	others := [][][]int{{{}}}
	for _, c := range cert[:upto] {
		others = append(others, [][]int{c}, [][]int{c, {}})
	}
	for _, c2 := range others {
		fresh, _ := ParseCNF(strings.NewReader(vpDimacs(n, F)))
		want, _ := fresh.Unsat(strings.NewReader(vpCertText(c2)))
		got, _ := pb.Unsat(strings.NewReader(vpCertText(c2)))
		zzvp.Assert(got == want, "after a check, the problem does not give another certificate the answer a fresh problem gives")
	}
}

// vpSubMultiset: every clause of sub occurs in sup at least as often (literal order ignored).
func vpKey(c []int) string {
	s := append([]int(nil), c...)
	for i := range s {
		for j := i + 1; j < len(s); j++ {
			if s[j] < s[i] {
				s[i], s[j] = s[j], s[i]
			}
		}
	}
	return fmt.Sprint(s)
}

func vpSubMultiset(sub, sup [][]int) bool {
	cnt := map[string]int{}
	for _, c := range sup {
		cnt[vpKey(c)]++
	}
	for _, c := range sub {
		k := vpKey(c)
		if cnt[k] == 0 {
			return false
		}
		cnt[k]--
	}
	return true
}

// VP_C08_subset: UnsatSubset.
func VP_C08_subset() {
	n := zzvp.Param("n", 2)
	F := vpConcreteCNF(n, zzvp.Param("m", 3), zzvp.Param("k", 2), "")
	pb, err := ParseCNF(strings.NewReader(vpDimacs(n, F)))
	if err != nil {
		zzvp.Assert(false, "ParseCNF failed")
		return
	}
	before := vpCopy2(pb.Clauses)
	sub, err := pb.UnsatSubset()
	if vpSatCNF(F, n) {
		zzvp.Reach("sat")
		zzvp.Assert(err != nil && sub == nil, "satisfiable problem: expected an error and no subset")
	} else {
		zzvp.Reach("unsat")
		zzvp.Assert(err == nil && sub != nil, "unsatisfiable problem: expected a subset")
		if sub != nil {
			zzvp.Assert(vpSubMultiset(sub.Clauses, F), "subset is not a sub-multiset of the input clauses")
			zzvp.Assert(!vpSatCNF(sub.Clauses, n), "subset is satisfiable")
			zzvp.Assert(sub.NbClauses == len(sub.Clauses), "NbClauses differs from the number of clauses")
		}
	}
	zzvp.Assert(vpSame2(pb.Clauses[:pb.NbClauses], before) && len(pb.Clauses) == len(before), "the caller's problem was modified")
}

// VP_C07_mus: the four MUS extraction methods.
// vpMUSSkeletons: unsatisfiable clause structures over 6-8 variables with
// several conflicts, unit clauses and clauses outside every core.
var vpMUSSkeletons = []struct {
	n int
	c [][]int
}{
	// 0: pigeon-hole 3/2 plus three clauses outside the core
	{7, [][]int{{1, 2}, {3, 4}, {5, 6}, {-1, -3}, {-1, -5}, {-3, -5}, {-2, -4}, {-2, -6}, {-4, -6}, {7, 1}, {-7, 3}, {7, -6, 2}}},
	// 1: two unit clauses, binary and ternary clauses (several conflicts before the refutation)
	{7, [][]int{{-3, 6, 1}, {-5, 2}, {3}, {6, 3, 1}, {-1}, {2, 7}, {-6, -2}, {5, -3}, {-7, 5}, {7, -2}}},
	// 2: no unit clause; an implication cycle closed by two ternary clauses
	{6, [][]int{{1, 2, 3}, {-1, 4}, {-2, 4}, {-3, 4}, {-4, 5}, {-4, 6}, {-5, -6, 1}, {-5, -6, -1}, {2, -3}, {3, -2, 6}}},
}

// vpSkeletonCNF returns skeleton k with the polarity of every variable chosen
// by the solver (this keeps the skeleton unsatisfiable and changes the order
// in which the solver meets conflicts), and in addition the polarity of the
// last maxSigns literal occurrences.
func vpSkeletonCNF(k, maxSigns int) (int, [][]int) {
	sk := vpMUSSkeletons[k]
	pol := make([]int, sk.n+1)
	for v := 1; v <= sk.n; v++ {
		pol[v] = 1
		if zzvp.Choose("vflip", 2) == 1 {
			pol[v] = -1
		}
	}
	total := 0
	for _, c := range sk.c {
		total += len(c)
	}
	F := make([][]int, len(sk.c))
	cnt := 0
	for j, c := range sk.c {
		F[j] = make([]int, len(c))
		for i, l := range c {
			F[j][i] = l * pol[vpAbs(l)]
			if cnt >= total-maxSigns && zzvp.Choose("flip", 2) == 1 {
				F[j][i] = -F[j][i]
			}
			cnt++
		}
	}
	// a declared variable that occurs in no clause (the solver still decides it)
	return sk.n + zzvp.Choose("extra", 2), F
}

func VP_C07_mus() {
	n := zzvp.Param("n", 2)
	var F [][]int
	skel := zzvp.Param("skel", 0) == 1
	if skel {
		n, F = vpSkeletonCNF(zzvp.Choose("skeleton", zzvp.Param("nskel", len(vpMUSSkeletons))), zzvp.Param("maxsigns", 6))
	} else {
		F = vpConcreteCNF(n, zzvp.Param("m", 3), zzvp.Param("k", 2), "")
	}
	pb, err := ParseCNF(strings.NewReader(vpDimacs(n, F)))
	if err != nil {
		zzvp.Assert(false, "ParseCNF failed")
		return
	}
	before := vpCopy2(pb.Clauses)
	nbVars, nbClauses := pb.NbVars, pb.NbClauses
	unitsBefore := append([]int(nil), pb.units...)
	var mus *Problem
	nm := 4
	if skel {
		nm = 3 // MUSMaxSat needs the scope predicate of its known finding, too costly on skeletons
	}
	method := zzvp.Choose("method", nm)
	if method == 3 && zzvp.Param("kf_maxsat", 1) == 1 {
		// known finding C07-musmaxsat-several-cores: MUSMaxSat is only claimed on
		// problems with at most one minimal unsatisfiable subset
		zzvp.Assume(vpCountMUS(F, n) <= 1)
	}
	switch method {
	case 0:
		mus, err = pb.MUS()
	case 1:
		mus, err = pb.MUSDeletion()
	case 2:
		mus, err = pb.MUSInsertion()
	default:
		mus, err = pb.MUSMaxSat()
	}
	if vpSatCNF(F, n) {
		zzvp.Reach("sat")
		zzvp.Assert(err != nil, "satisfiable problem: expected an error")
		zzvp.Assert(mus == nil, "satisfiable problem: expected no MUS")
	} else {
		zzvp.Reach("unsat")
		zzvp.Assert(err == nil && mus != nil, "unsatisfiable problem: expected a MUS")
		if mus != nil {
			zzvp.Assert(vpSubMultiset(mus.Clauses, F), "MUS clauses are not a sub-multiset of the input")
			zzvp.Assert(!vpSatCNF(mus.Clauses, n), "returned set is satisfiable")
			for i := range mus.Clauses {
				rest := append(vpCopy2(mus.Clauses[:i]), mus.Clauses[i+1:]...)
				zzvp.Assert(vpSatCNF(rest, n), "returned set is not minimal: a clause can be removed and the rest stays unsatisfiable")
			}
			zzvp.Assert(mus.NbClauses == len(mus.Clauses), "NbClauses differs from the number of clauses")
		}
	}
	if zzvp.Param("second", 1) == 1 && method != 3 {
		// the problem is left unchanged: a second extraction on the same value is as good as the first
		var mus2 *Problem
		var err2 error
		switch zzvp.Choose("method2", 2) {
		case 0:
			mus2, err2 = pb.MUS()
		default:
			mus2, err2 = pb.MUSInsertion()
		}
		if vpSatCNF(F, n) {
			zzvp.Assert(err2 != nil && mus2 == nil, "second extraction on a satisfiable problem: expected an error")
		} else {
			zzvp.Assert(err2 == nil && mus2 != nil, "second extraction on the same problem: expected a MUS")
			if mus2 != nil {
				zzvp.Assert(vpSubMultiset(mus2.Clauses, F), "second extraction: clauses are not a sub-multiset of the input")
				zzvp.Assert(!vpSatCNF(mus2.Clauses, n), "second extraction on the same problem returned a satisfiable set")
				for i := range mus2.Clauses {
					rest := append(vpCopy2(mus2.Clauses[:i]), mus2.Clauses[i+1:]...)
					zzvp.Assert(vpSatCNF(rest, n), "second extraction on the same problem returned a set that is not minimal")
				}
			}
		}
	}
	zzvp.Assert(pb.NbVars == nbVars && pb.NbClauses == nbClauses, "the caller's problem header changed")
	zzvp.Assert(len(pb.Clauses) >= len(before) && vpSame2(pb.Clauses[:len(before)], before), "the caller's clauses were modified")
	same := len(pb.units) == len(unitsBefore)
	for i := range unitsBefore {
		if same && pb.units[i] != unitsBefore[i] {
			same = false
		}
	}
	if !same {
		// an unexported field: only recorded; what it would break is observed by the second extraction
		zzvp.Reach("internal-units-changed")
	}
}

// vpCountMUS counts the minimal unsatisfiable sub-multisets (by index set) of F.
func vpCountMUS(F [][]int, n int) int {
	m := len(F)
	pick := func(mask int) [][]int {
		var r [][]int
		for i := 0; i < m; i++ {
			if mask&(1<<uint(i)) != 0 {
				r = append(r, F[i])
			}
		}
		return r
	}
	cnt := 0
	for mask := 1; mask < 1<<uint(m); mask++ {
		if vpSatCNF(pick(mask), n) {
			continue
		}
		minimal := true
		for i := 0; i < m && minimal; i++ {
			if mask&(1<<uint(i)) != 0 && !vpSatCNF(pick(mask&^(1<<uint(i))), n) {
				minimal = false
			}
		}
		if minimal {
			cnt++
		}
	}
	return cnt
}

// VP_KF_C07_1: concrete witness of known finding C07-musmaxsat-several-cores.
func VP_KF_C07_1() {
	F := [][]int{{1}, {-1}, {2}, {-2}}
	pb, _ := ParseCNF(strings.NewReader(vpDimacs(2, F)))
	mus, err := pb.MUSMaxSat()
	zzvp.Assert(err == nil && mus != nil, "expected a MUS")
	for i := range mus.Clauses {
		rest := append(vpCopy2(mus.Clauses[:i]), mus.Clauses[i+1:]...)
		zzvp.Assert(vpSatCNF(rest, 2), "returned set is not minimal")
	}
}

// VP_C16_explain: two independent MUS / unsat-subset extractions on two
// goroutines under the happens-before monitor (which also watches the
// goroutine UnsatSubset starts internally).
func VP_C16_explain() {
	problems := [][][]int{
		{{1, 2}, {-1, 2}, {1, -2}, {-1, -2}, {1}},
		{{1}, {-1, 2}, {-2}, {2, 3}},
		{{1, 2, 3}, {-1}, {-2}, {-3}},
		{{1, 2}, {-1, 2}, {1, -2}, {-1, -2}},                       // needs search: the solver goroutine is started
		{{1, 2}, {-1, 2}, {1, -2}, {-1, -2, 3}, {-3, 1}, {-3, -1}}, // needs search and learning
	}
	use := func(k, method int) (int, bool) {
		F := problems[k]
		pb, err := ParseCNF(strings.NewReader(vpDimacs(3, F)))
		if err != nil {
			return -1, false
		}
		var mus *Problem
		switch method {
		case 0:
			mus, err = pb.UnsatSubset()
		case 1:
			mus, err = pb.MUSDeletion()
		default:
			mus, err = pb.MUSInsertion()
		}
		if err != nil || mus == nil {
			return -1, false
		}
		return len(mus.Clauses), !vpSatCNF(mus.Clauses, 3)
	}
	first := zzvp.Param("first", 0) // problems[first:] are used
	k1 := first + zzvp.Choose("p1", len(problems)-first)
	k2 := first + zzvp.Choose("p2", len(problems)-first)
	m1 := zzvp.Choose("m1", zzvp.Param("methods", 3))
	m2 := zzvp.Choose("m2", zzvp.Param("methods", 3))
	w1n, w1ok := use(k1, m1)
	w2n, w2ok := use(k2, m2)
	zzvp.RaceDetect(true)
	zzvp.Preemptions(zzvp.Param("preempt", 0))
	zzvp.Schedule(1)
	type res struct {
		n  int
		ok bool
	}
	c1 := make(chan res, 1)
	c2 := make(chan res, 1)
	go func() { n, ok := use(k1, m1); c1 <- res{n, ok} }()
	go func() { n, ok := use(k2, m2); c2 <- res{n, ok} }()
	r1 := <-c1
	r2 := <-c2
	zzvp.Schedule(0)
	zzvp.RaceDetect(false)
	zzvp.Assert(r1.ok && r2.ok && w1ok && w2ok, "an extraction failed or returned a satisfiable set")
	zzvp.Assert(r1.n == w1n && r2.n == w2n, "an extraction run concurrently with another returned something else than when run alone")
	zzvp.Reach("two-uses")
}

// VP_C18_explain_cnf: explain.Problem.CNF() re-read by explain.ParseCNF gives the same problem.
func VP_C18_explain_cnf() {
	n := zzvp.Param("n", 2)
	F := vpConcreteCNF(n, zzvp.Param("m", 3), zzvp.Param("k", 2), "")
	pb, err := ParseCNF(strings.NewReader(vpDimacs(n, F)))
	if err != nil {
		zzvp.Assert(false, "ParseCNF failed")
		return
	}
	text := pb.CNF()
	zzvp.Obs("text", text)
	pb2, err := ParseCNF(strings.NewReader(text))
	zzvp.Assert(err == nil, "the printed problem is rejected by ParseCNF")
	if err != nil {
		return
	}
	zzvp.Assert(pb2.NbVars == pb.NbVars && pb2.NbClauses == pb.NbClauses, "header counts changed")
	zzvp.Assert(vpSame2(pb2.Clauses, F), "the re-read clauses differ from the original ones")
	same := len(pb.units) == len(pb2.units)
	for i := range pb.units {
		if same && pb.units[i] != pb2.units[i] {
			same = false
		}
	}
	zzvp.Assert(same, "unit bindings differ after the round trip")
	zzvp.Reach("explain-cnf")
}
