// Package zzvp holds the harness intrinsics. Under the symbolic engine every
// function here is intercepted by name; the bodies below are the *native*
// semantics used when a witness is replayed against the compiled code.
package zzvp

import (
	"bytes"
	"encoding/json"
	"fmt"
	"os"
	"os/exec"
	"path/filepath"
	"reflect"
	"regexp"
)

type witness struct {
	Vars    map[string]int64 `json:"vars"`
	Choices []int            `json:"choices"`
	Params  map[string]int   `json:"params"`
}

var (
	w        witness
	loaded   bool
	seq      = map[string]int{}
	chooseIx int
	// Failures collects failed assertions during a native replay.
	Failures []string
	// Tags collects Reach tags.
	Tags []string
	// Observed collects Obs key/values.
	Observed = map[string]string{}
)

var nonIdent = regexp.MustCompile(`[^A-Za-z0-9_]`)

func load() {
	if loaded {
		return
	}
	loaded = true
	path := os.Getenv("VP_WITNESS")
	if path == "" {
		panic("zzvp: VP_WITNESS not set (native mode needs a witness)")
	}
	data, err := os.ReadFile(path)
	if err != nil {
		panic(err)
	}
	if err := json.Unmarshal(data, &w); err != nil {
		panic(err)
	}
}

// SetWitness installs a witness (JSON) and resets the replay state.
func SetWitness(data []byte) error {
	w = witness{}
	if err := json.Unmarshal(data, &w); err != nil {
		return err
	}
	loaded = true
	Reset()
	return nil
}

// Reset clears the replay state (between two native runs in one process).
func Reset() {
	observers = map[string][]interface{}{}
	seq = map[string]int{}
	chooseIx = 0
	Failures = nil
	Tags = nil
	Observed = map[string]string{}
}

func next(name string) (int64, bool) {
	load()
	clean := nonIdent.ReplaceAllString(name, "_")
	if clean == "" {
		clean = "v"
	}
	seq[clean]++
	v, ok := w.Vars[fmt.Sprintf("%s!%d", clean, seq[clean])]
	return v, ok
}

type AssumeFailed struct{ Msg string }

// Int returns a fresh symbolic int with lo <= x <= hi.
func Int(name string, lo, hi int) int {
	v, ok := next(name)
	if !ok {
		return lo
	}
	return int(v)
}

// Int32 returns an unconstrained symbolic int32.
func Int32(name string) int32 {
	v, _ := next(name)
	return int32(v)
}

// Bool returns a fresh symbolic bool.
func Bool(name string) bool {
	v, _ := next(name)
	return v != 0
}

// Byte returns a fresh symbolic byte with lo <= b <= hi.
func Byte(name string, lo, hi byte) byte {
	v, ok := next(name)
	if !ok {
		return lo
	}
	return byte(v)
}

// Choose makes the engine fork n ways; returns 0..n-1.
func Choose(name string, n int) int {
	load()
	if chooseIx < len(w.Choices) {
		c := w.Choices[chooseIx]
		chooseIx++
		return c
	}
	return 0
}

// Param returns a harness parameter supplied by the check configuration.
func Param(name string, def int) int {
	load()
	if v, ok := w.Params[name]; ok {
		return v
	}
	return def
}

func Assume(c bool) {
	if !c {
		panic(AssumeFailed{"assumption does not hold under the witness"})
	}
}

func Assert(c bool, msg string) {
	if !c {
		Failures = append(Failures, msg)
		panic(AssertFailed{msg})
	}
}

type AssertFailed struct{ Msg string }

func Reach(tag string) { Tags = append(Tags, tag) }

func And(a, b bool) bool     { return a && b }
func Or(a, b bool) bool      { return a || b }
func Not(a bool) bool        { return !a }
func Implies(a, b bool) bool { return !a || b }
func Eqv(a, b bool) bool     { return a == b }
func Ite(c bool, x, y int) int {
	if c {
		return x
	}
	return y
}
func IteB(c bool, x, y bool) bool {
	if c {
		return x
	}
	return y
}

// Concretize forks over all feasible values of x.
func Concretize(x int) int { return x }

// ConcretizeB forks over the feasible values of b.
func ConcretizeB(b bool) bool { return b }

// Observe registers cb to be called at every entry of the named function
// with the function's arguments (engine only; natively a no-op).
func Observe(fn string, cb interface{}) { observers["entry:"+fn] = append(observers["entry:"+fn], cb) }
func ObserveReturn(fn string, cb interface{}) {
	observers["return:"+fn] = append(observers["return:"+fn], cb)
}

var observers = map[string][]interface{}{}
var inObserver bool

// CallObservers is called by the wrappers that the replay tool generates
// around observed functions (native mode only).
func CallObservers(kind, fn string, args ...interface{}) {
	cbs := observers[kind+":"+fn]
	if len(cbs) == 0 || inObserver {
		return
	}
	inObserver = true
	defer func() { inObserver = false }()
	for _, cb := range cbs {
		f := reflect.ValueOf(cb)
		in := make([]reflect.Value, len(args))
		for i, a := range args {
			if a == nil {
				in[i] = reflect.Zero(f.Type().In(i))
			} else {
				in[i] = reflect.ValueOf(a)
			}
		}
		f.Call(in)
	}
}

// MapOrder selects how `range` over maps is explored: 0 insertion order,
// 1 insertion and reverse, 2 all rotations, 3 all permutations.
func MapOrder(mode int) {}

// Schedule selects goroutine scheduling exploration: mode 0 = run until
// blocked (one schedule); 1 = all choices at scheduling points.
func Schedule(mode int) {}

// RaceDetect turns the happens-before monitor on or off.
func RaceDetect(on bool) {}

// Fuel sets the instruction budget of the current path.
func Fuel(n int) {}

// Obs records an observable for cross-validation of engine vs native runs.
func Obs(key string, val interface{}) { Observed[key] = fmt.Sprint(val) }

// Symbolic reports whether the harness runs under the symbolic engine.
func Symbolic() bool { return false }

// Output returns what the target wrote to stdout so far (engine: captured
// buffer; native: not available).
func Output() string { return lastOut }

// IntMode lets the engine discharge queries with the mathematical-integer
// printer whenever its no-wrap interval analysis succeeds (natively a no-op).
func IntMode(on bool) {}

// Exists asks the solver whether the path condition together with c is
// satisfiable (an existential query over the symbolic variables c mentions).
// Natively it can only report the truth of c under the witness.
func Exists(c bool) bool { return c }

// Preemptions bounds the number of preemptive context switches explored per
// path (-1: unbounded). Switches at blocking operations are never bounded.
func Preemptions(n int) {}

var (
	runArgs  []string
	runFiles = map[string]string{}
	lastOut  string
	lastErr  string
)

// SetArgs records the command line for RunMain.
func SetArgs(args []string) { runArgs = append([]string(nil), args...) }

// SetFile records a file to be created for RunMain.
func SetFile(path, content string) { runFiles[path] = content }

// RunMain (native): runs the real gophersat binary ($VP_GOPHERSAT_BIN) on the
// recorded files and arguments; f is ignored.
func RunMain(f func()) int {
	bin := os.Getenv("VP_GOPHERSAT_BIN")
	if bin == "" {
		panic("zzvp: VP_GOPHERSAT_BIN not set")
	}
	dir, err := os.MkdirTemp("", "vpcli")
	if err != nil {
		panic(err)
	}
	defer os.RemoveAll(dir)
	for p, c := range runFiles {
		if err := os.WriteFile(filepath.Join(dir, p), []byte(c), 0644); err != nil {
			panic(err)
		}
	}
	args := append([]string(nil), runArgs[1:]...)
	cmd := exec.Command(bin, args...)
	cmd.Dir = dir
	var out, errb bytes.Buffer
	cmd.Stdout = &out
	cmd.Stderr = &errb
	runErr := cmd.Run()
	lastOut, lastErr = out.String(), errb.String()
	runFiles = map[string]string{}
	if runErr == nil {
		return 0
	}
	if ee, ok := runErr.(*exec.ExitError); ok {
		return ee.ExitCode()
	}
	return -1
}

// ErrOutput returns what the last RunMain wrote to standard error.
func ErrOutput() string { return lastErr }
