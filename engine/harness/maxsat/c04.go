package maxsat

import (
	"fmt"
	"strings"

	"github.com/crillab/gophersat/solver"
	"github.com/crillab/gophersat/zzvp"
)

var vpNames = []string{"a", "b", "c"}

type vpConstr struct {
	vars    []int  // indices into vpNames
	neg     []bool // possibly symbolic
	coeffs  []int  // possibly symbolic (all 1 when the constraint is built with nil coeffs)
	atLeast int
	weight  int // 0 = hard
}

func vpBitOf(a int, v int) bool { return (a>>uint(v))&1 == 1 }

// holds under assignment index a (bit v = value of vpNames[v])
func (c vpConstr) holds(a int) bool {
	s := 0
	for i, v := range c.vars {
		t := zzvp.Eqv(vpBitOf(a, v), zzvp.Not(c.neg[i]))
		s += zzvp.Ite(t, c.coeffs[i], 0)
	}
	return s >= c.atLeast
}

func (c vpConstr) holdsM(m Model) bool {
	s := 0
	for i, v := range c.vars {
		t := zzvp.Eqv(m[vpNames[v]], zzvp.Not(c.neg[i]))
		s += zzvp.Ite(t, c.coeffs[i], 0)
	}
	return s >= c.atLeast
}

const vpInf = 1 << 30

// vpSymConstrs builds <=M symbolic constraints (distinct variables inside each).
func vpSymConstrs(M, K, W, CW int, shapes int) ([]vpConstr, []Constr) {
	m := zzvp.Choose("m", M) + 1
	var ref []vpConstr
	var cs []Constr
	for j := 0; j < m; j++ {
		k := zzvp.Choose("k", K) + 1
		shape := zzvp.Choose("shape", shapes) // 0 clause, 1 cardinality (nil coeffs), 2 PB
		soft := zzvp.Choose("soft", 2) == 1
		c := vpConstr{}
		// distinct variables: k consecutive names starting at a chosen one
		start := zzvp.Choose("var", len(vpNames))
		for i := 0; i < k; i++ {
			c.vars = append(c.vars, (start+i)%len(vpNames))
			c.neg = append(c.neg, zzvp.Bool("neg"))
		}
		c.atLeast = 1
		for i := 0; i < k; i++ {
			c.coeffs = append(c.coeffs, 1)
		}
		switch shape {
		case 1:
			c.atLeast = zzvp.Int("atleast", 1, k)
		case 2:
			for i := range c.coeffs {
				c.coeffs[i] = zzvp.Int("coeff", 1, CW)
			}
			c.atLeast = zzvp.Int("atleast", 1, k*CW)
		}
		if soft {
			c.weight = zzvp.Int("weight", 1, W)
		}
		lits := make([]Lit, k)
		for i := range lits {
			lits[i] = Lit{Var: vpNames[c.vars[i]], Negated: c.neg[i]}
		}
		var k2 Constr
		switch shape {
		case 0:
			if soft {
				k2 = WeightedClause(lits, c.weight)
			} else {
				k2 = HardClause(lits...)
			}
		case 1:
			k2 = Constr{Lits: lits, AtLeast: c.atLeast, Weight: c.weight}
		default:
			co := append([]int(nil), c.coeffs...)
			if soft {
				k2 = WeightedPBConstr(lits, co, c.atLeast, c.weight)
			} else {
				k2 = HardPBConstr(lits, co, c.atLeast)
			}
		}
		ref = append(ref, c)
		cs = append(cs, k2)
	}
	return ref, cs
}

// vpSpec: minimal total weight of violated soft constraints over the
// assignments that satisfy all hard constraints (vpInf if none).
func vpSpec(ref []vpConstr) (min int, costOf func(a int) int, hardOf func(a int) bool) {
	hardOf = func(a int) bool {
		r := true
		for _, c := range ref {
			if c.weight == 0 {
				r = zzvp.And(r, c.holds(a))
			}
		}
		return r
	}
	costOf = func(a int) int {
		s := 0
		for _, c := range ref {
			if c.weight != 0 {
				s += zzvp.Ite(c.holds(a), 0, c.weight)
			}
		}
		return s
	}
	min = vpInf
	for a := 0; a < 1<<uint(len(vpNames)); a++ {
		c := costOf(a)
		better := zzvp.And(hardOf(a), c < min)
		min = zzvp.Ite(better, c, min)
	}
	return
}

// VP_C04_maxsat_api: constraint API vs the reference optimum, all map orders.
func VP_C04_maxsat_api() {
	zzvp.IntMode(true)
	zzvp.MapOrder(zzvp.Param("maporder", 3))
	ref, cs := vpSymConstrs(zzvp.Param("m", 2), zzvp.Param("k", 2), zzvp.Param("W", 2), zzvp.Param("CW", 2), zzvp.Param("shapes", 3))
	min, _, _ := vpSpec(ref)
	pb := New(cs...)
	model, cost := pb.Solve()
	if model == nil {
		zzvp.Reach("unsat")
		zzvp.Assert(cost == -1, "nil model must come with cost -1")
		zzvp.Assert(min == vpInf, "answered unsatisfiable but the hard constraints are satisfiable")
		return
	}
	zzvp.Reach("sat")
	zzvp.Assert(min != vpInf, "returned a model but the hard constraints are unsatisfiable")
	used := map[string]bool{}
	for _, c := range ref {
		for _, v := range c.vars {
			used[vpNames[v]] = true
		}
	}
	zzvp.Assert(len(model) == len(used), "model does not cover exactly the user's variables")
	for name := range used {
		_, ok := model[name]
		zzvp.Assert(ok, "a user variable is missing from the model")
	}
	viol := 0
	for _, c := range ref {
		if c.weight == 0 {
			zzvp.Assert(c.holdsM(model), "a hard constraint is violated by the returned model")
		} else {
			viol += zzvp.Ite(c.holdsM(model), 0, c.weight)
		}
	}
	zzvp.Assert(cost == viol, "reported cost differs from the weight of the violated soft constraints")
	zzvp.Assert(cost == min, "reported cost is not minimal")
}

// ---- WCNF ----

// VP_C04_maxsat_wcnf: WCNF text -> ParseWCNF -> Optimal (with and without channel).
func VP_C04_maxsat_wcnf() {
	zzvp.IntMode(true)
	n := zzvp.Choose("n", zzvp.Param("n", 2)) + 1 // highest variable used <= n
	extra := zzvp.Choose("extra", 2)              // declared-but-unused variables
	m := zzvp.Choose("m", zzvp.Param("m", 2)) + 1
	K := zzvp.Param("k", 2)
	W := zzvp.Param("W", 2)
	withTop := zzvp.Choose("top", 2) == 1
	top := W + 1
	type cl struct {
		lits []int
		w    int
	}
	var cls []cl
	for j := 0; j < m; j++ {
		k := zzvp.Choose("k", K) + 1
		c := cl{}
		for i := 0; i < k; i++ {
			l := zzvp.Concretize(zzvp.Int("l", -n, n))
			if l == 0 {
				zzvp.Assume(false)
			}
			c.lits = append(c.lits, l)
		}
		maxw := W
		if withTop {
			maxw = top // weight == top means hard
		}
		c.w = zzvp.Concretize(zzvp.Int("w", 1, maxw))
		cls = append(cls, c)
	}
	decl := n + extra
	var sb strings.Builder
	sb.WriteString("c generated\n")
	if withTop {
		fmt.Fprintf(&sb, "p wcnf %d %d %d\n", decl, m, top)
	} else {
		fmt.Fprintf(&sb, "p wcnf %d %d\n", decl, m)
	}
	for _, c := range cls {
		fmt.Fprintf(&sb, "%d", c.w)
		for _, l := range c.lits {
			fmt.Fprintf(&sb, " %d", l)
		}
		sb.WriteString(" 0\n")
	}
	text := sb.String()
	zzvp.Obs("text", text)
	// reference
	holds := func(c cl, a int) bool {
		for _, l := range c.lits {
			v := l
			if v < 0 {
				v = -v
			}
			if ((a>>uint(v-1))&1 == 1) == (l > 0) {
				return true
			}
		}
		return false
	}
	min := vpInf
	for a := 0; a < 1<<uint(decl); a++ {
		cost, ok := 0, true
		for _, c := range cls {
			if !holds(c, a) {
				if withTop && c.w >= top {
					ok = false
				} else {
					cost += c.w
				}
			}
		}
		if ok && cost < min {
			min = cost
		}
	}
	check := func(res solver.Result, route string) {
		if min == vpInf {
			zzvp.Assert(res.Status == solver.Unsat, route+": hard clauses unsatisfiable but status is not Unsat")
			return
		}
		zzvp.Assert(res.Status == solver.Sat, route+": status is not Sat although the hard clauses are satisfiable")
		zzvp.Assert(len(res.Model) == decl, route+": model length differs from the declared number of variables (relaxation variables leak or variables are missing)")
		if len(res.Model) < decl {
			return
		}
		a := 0
		for v := 0; v < decl; v++ {
			if res.Model[v] {
				a |= 1 << uint(v)
			}
		}
		cost := 0
		for _, c := range cls {
			if !holds(c, a) {
				if withTop && c.w >= top {
					zzvp.Assert(false, route+": a hard clause is violated by the returned model")
				} else {
					cost += c.w
				}
			}
		}
		zzvp.Assert(res.Weight == cost, route+": reported cost differs from the weight of the violated soft clauses")
		zzvp.Assert(res.Weight == min, route+": reported cost is not minimal")
	}
	s1, err := ParseWCNF(strings.NewReader(text))
	zzvp.Assert(err == nil, "ParseWCNF returned an error on a well-formed file")
	if err != nil {
		return
	}
	check(s1.Optimal(nil, nil), "Optimal(nil)")
	zzvp.Reach("wcnf")
	if zzvp.Param("chan", 1) == 1 {
		s2, _ := ParseWCNF(strings.NewReader(text))
		ch := make(chan solver.Result, 64)
		res := s2.Optimal(ch, nil)
		check(res, "Optimal(ch)")
	}
}

// VP_C20_stream_maxsat: maxsat Solver.Optimal with a results channel and a
// concurrent consumer, under every schedule at channel operations.
func VP_C20_stream_maxsat() {
	n := zzvp.Param("n", 2)
	m := zzvp.Choose("m", zzvp.Param("m", 2)) + 1
	K := zzvp.Param("k", 2)
	type cl struct {
		lits []int
		w    int
	}
	var cls []cl
	var sb strings.Builder
	fmt.Fprintf(&sb, "p wcnf %d %d\n", n, m)
	for j := 0; j < m; j++ {
		k := zzvp.Choose("k", K) + 1
		c := cl{w: zzvp.Concretize(zzvp.Int("w", 1, zzvp.Param("W", 2)))}
		fmt.Fprintf(&sb, "%d", c.w)
		for i := 0; i < k; i++ {
			l := zzvp.Int("l", -n, n)
			zzvp.Assume(l != 0)
			l = zzvp.Concretize(l)
			c.lits = append(c.lits, l)
			fmt.Fprintf(&sb, " %d", l)
		}
		sb.WriteString(" 0\n")
		cls = append(cls, c)
	}
	s, err := ParseWCNF(strings.NewReader(sb.String()))
	if err != nil {
		zzvp.Assert(false, "ParseWCNF failed")
		return
	}
	capacity := zzvp.Choose("capacity", zzvp.Param("maxcap", 1)+1)
	results := make(chan solver.Result, capacity)
	done := make(chan solver.Result, 1)
	zzvp.Preemptions(zzvp.Param("preempt", -1))
	zzvp.Schedule(zzvp.Param("schedule", 1))
	go func() {
		done <- s.Optimal(results, nil)
	}()
	var got []solver.Result
	for r := range results {
		got = append(got, r)
		if len(got) > 32 {
			zzvp.Assert(false, "unbounded stream")
			return
		}
	}
	ret := <-done
	zzvp.Schedule(0)
	_, ok := <-results
	zzvp.Assert(!ok, "result channel not closed")
	costOf := func(model []bool) int {
		cost := 0
		for _, c := range cls {
			sat := false
			for _, l := range c.lits {
				v := l
				if v < 0 {
					v = -v
				}
				if model[v-1] == (l > 0) {
					sat = true
				}
			}
			if !sat {
				cost += c.w
			}
		}
		return cost
	}
	min := vpInf
	for a := 0; a < 1<<uint(n); a++ {
		model := make([]bool, n)
		for v := 0; v < n; v++ {
			model[v] = (a>>uint(v))&1 == 1
		}
		if c := costOf(model); c < min {
			min = c
		}
	}
	zzvp.Assert(len(got) >= 1, "no result delivered")
	prev := vpInf
	for _, r := range got {
		zzvp.Assert(r.Status == solver.Sat, "a delivered result is not Sat")
		zzvp.Assert(len(r.Model) == n, "a forwarded model does not have the user's variable count")
		if len(r.Model) != n {
			return
		}
		zzvp.Assert(r.Weight == costOf(r.Model), "a delivered result announces a cost that is not the cost of its model")
		zzvp.Assert(r.Weight < prev, "costs do not strictly decrease along the stream")
		prev = r.Weight
	}
	last := got[len(got)-1]
	zzvp.Assert(ret.Weight == last.Weight && ret.Status == last.Status, "the returned result differs from the last delivered one")
	zzvp.Assert(ret.Weight == min, "the final cost is not the optimum")
	zzvp.Reach("stream")
}

// VP_C16_maxsat: two independent MaxSAT uses on two goroutines (constraint API
// and WCNF with a result channel, which starts a goroutine internally) under
// the happens-before monitor.
func VP_C16_maxsat() {
	use := func(k int) int {
		switch k {
		case 0:
			pb := New(SoftClause(Var("a"), Var("b")), SoftClause(Not("a")), HardClause(Not("b")))
			_, c := pb.Solve()
			return c
		case 1:
			pb := New(WeightedClause([]Lit{Var("a")}, 2), WeightedClause([]Lit{Not("a")}, 1), SoftPBConstr([]Lit{Var("a"), Var("b")}, []int{1, 2}, 3))
			_, c := pb.Solve()
			return c
		default:
			s, err := ParseWCNF(strings.NewReader("p wcnf 2 3\n1 1 2 0\n2 -1 0\n1 -2 0\n"))
			if err != nil {
				return -2
			}
			ch := make(chan solver.Result, 1)
			done := make(chan solver.Result, 1)
			go func() { done <- s.Optimal(ch, nil) }()
			for range ch {
			}
			r := <-done
			return r.Weight
		}
	}
	k1 := zzvp.Choose("u1", 3)
	k2 := zzvp.Choose("u2", 3)
	w1, w2 := use(k1), use(k2)
	zzvp.RaceDetect(true)
	zzvp.Preemptions(0)
	zzvp.Schedule(1)
	c1 := make(chan int, 1)
	c2 := make(chan int, 1)
	go func() { c1 <- use(k1) }()
	go func() { c2 <- use(k2) }()
	r1, r2 := <-c1, <-c2
	zzvp.Schedule(0)
	zzvp.RaceDetect(false)
	zzvp.Assert(r1 == w1 && r2 == w2, "a MaxSAT use run concurrently with another returned something else than when run alone")
	zzvp.Reach("two-uses")
}

// ---- skeletons: more constraints than the fully symbolic harness can afford ----

type vpSkConstr struct {
	lits   []int // +-(index into vpSkNames + 1)
	weight int   // 0 = hard
}

var vpSkNames = []string{"a", "e", "f", "g", "h"}

var vpMaxSATSkeletons = []struct {
	n int
	c []vpSkConstr
}{
	// 0: two hard clauses, seven weighted unit clauses with distinct weights, some of them contradicting each other
	{4, []vpSkConstr{{[]int{2, 1}, 0}, {[]int{-2}, 40}, {[]int{4}, 15}, {[]int{-1}, 29}, {[]int{-3}, 13}, {[]int{4, 3}, 0}, {[]int{-1}, 14}, {[]int{1}, 1}, {[]int{-4}, 27}}},
	// 1: a chain of hard implications, soft clauses pulling both ways
	{5, []vpSkConstr{{[]int{-1, 2}, 0}, {[]int{-2, 3}, 0}, {[]int{-3, 4}, 0}, {[]int{1}, 9}, {[]int{-4}, 7}, {[]int{-2}, 3}, {[]int{3, 5}, 5}, {[]int{-5}, 2}, {[]int{-3, -5}, 4}, {[]int{5, 1}, 6}}},
}

// VP_C04_maxsat_skeleton: fixed constraint structures (9-10 constraints over
// 4-5 variables: several improving models before the optimum); the first nw
// soft weights range over base-W..base+W and the first maxsigns soft-clause
// polarities are symbolic.
func VP_C04_maxsat_skeleton() {
	zzvp.IntMode(true)
	zzvp.MapOrder(zzvp.Param("maporder", 1))
	sk := vpMaxSATSkeletons[zzvp.Choose("skeleton", zzvp.Param("nskel", len(vpMaxSATSkeletons)))]
	nw, ns, W := zzvp.Param("nw", 2), zzvp.Param("maxsigns", 3), zzvp.Param("W", 1)
	type rc struct {
		lits   []int
		neg    []bool
		weight int
		hard   bool
	}
	var ref []rc
	var cs []Constr
	cw, cs2 := 0, 0
	for _, c := range sk.c {
		r := rc{lits: c.lits, weight: c.weight, hard: c.weight == 0}
		lits := make([]Lit, len(c.lits))
		for i, l := range c.lits {
			neg := l < 0
			if c.weight != 0 && cs2 < ns {
				cs2++
				neg = zzvp.Bool("neg")
			}
			r.neg = append(r.neg, neg)
			v := l
			if v < 0 {
				v = -v
			}
			lits[i] = Lit{Var: vpSkNames[v-1], Negated: neg}
		}
		if c.weight != 0 && cw < nw {
			cw++
			// a neighbourhood of the skeleton's weight: base-W .. base+W, at least 1
			dw := zzvp.Int("dw", -W, W)
			zzvp.Assume(c.weight+dw >= 1)
			r.weight = c.weight + dw
		}
		if c.weight == 0 {
			cs = append(cs, HardClause(lits...))
		} else {
			cs = append(cs, WeightedClause(lits, r.weight))
		}
		ref = append(ref, r)
	}
	holds := func(r rc, val func(v int) bool) bool {
		res := false
		for i, l := range r.lits {
			v := l
			if v < 0 {
				v = -v
			}
			res = zzvp.Or(res, zzvp.Eqv(val(v-1), zzvp.Not(r.neg[i])))
		}
		return res
	}
	min := vpInf
	for a := 0; a < 1<<uint(sk.n); a++ {
		hard, cost := true, 0
		for _, r := range ref {
			h := holds(r, func(v int) bool { return vpBitOf(a, v) })
			if r.hard {
				hard = zzvp.And(hard, h)
			} else {
				cost += zzvp.Ite(h, 0, r.weight)
			}
		}
		min = zzvp.Ite(zzvp.And(hard, cost < min), cost, min)
	}
	pb := New(cs...)
	model, cost := pb.Solve()
	zzvp.Assert(model != nil, "the hard clauses of the skeleton are satisfiable but no model was returned")
	if model == nil {
		return
	}
	zzvp.Reach("sat")
	viol := 0
	for _, r := range ref {
		h := holds(r, func(v int) bool { return model[vpSkNames[v]] })
		if r.hard {
			zzvp.Assert(h, "a hard constraint is violated by the returned model")
		} else {
			viol += zzvp.Ite(h, 0, r.weight)
		}
	}
	zzvp.Assert(cost == viol, "reported cost differs from the weight of the violated soft constraints")
	zzvp.Assert(cost == min, "reported cost is not minimal")
}
