package maxsat

import (
	"fmt"
	"strings"

	"github.com/crillab/gophersat/solver"
	"github.com/crillab/gophersat/zzvp"
)

var vpNames = []string{"a", "b", "c"}

type vpConstr struct {
	vars   []int  // indices into vpNames
	neg    []bool // possibly symbolic
	coeffs []int  // possibly symbolic (all 1 when the constraint is built with nil coeffs)
	atLeast int
	weight int // 0 = hard
}

func vpBitOf(a int, v int) bool { return (a>>uint(v))&1 == 1 }

// holds under assignment index a (bit v = value of vpNames[v])
func (c vpConstr) holds(a int) bool {
	s := 0
	for i, v := range c.vars {
		t := zzvp.Eqv(vpBitOf(a, v), zzvp.Not(c.neg[i]))
		s += zzvp.Ite(t, c.coeffs[i], 0)
	}
	return s >= c.atLeast
}

func (c vpConstr) holdsM(m Model) bool {
	s := 0
	for i, v := range c.vars {
		t := zzvp.Eqv(m[vpNames[v]], zzvp.Not(c.neg[i]))
		s += zzvp.Ite(t, c.coeffs[i], 0)
	}
	return s >= c.atLeast
}

const vpInf = 1 << 30

// vpSymConstrs builds <=M symbolic constraints (distinct variables inside each).
func vpSymConstrs(M, K, W, CW int, shapes int) ([]vpConstr, []Constr) {
	m := zzvp.Choose("m", M) + 1
	var ref []vpConstr
	var cs []Constr
	for j := 0; j < m; j++ {
		k := zzvp.Choose("k", K) + 1
		shape := zzvp.Choose("shape", shapes) // 0 clause, 1 cardinality (nil coeffs), 2 PB
		soft := zzvp.Choose("soft", 2) == 1
		c := vpConstr{}
		// distinct variables: k consecutive names starting at a chosen one
		start := zzvp.Choose("var", len(vpNames))
		for i := 0; i < k; i++ {
			c.vars = append(c.vars, (start+i)%len(vpNames))
			c.neg = append(c.neg, zzvp.Bool("neg"))
		}
		c.atLeast = 1
		for i := 0; i < k; i++ {
			c.coeffs = append(c.coeffs, 1)
		}
		switch shape {
		case 1:
			c.atLeast = zzvp.Int("atleast", 1, k)
		case 2:
			for i := range c.coeffs {
				c.coeffs[i] = zzvp.Int("coeff", 1, CW)
			}
			c.atLeast = zzvp.Int("atleast", 1, k*CW)
		}
		if soft {
			c.weight = zzvp.Int("weight", 1, W)
		}
		lits := make([]Lit, k)
		for i := range lits {
			lits[i] = Lit{Var: vpNames[c.vars[i]], Negated: c.neg[i]}
		}
		var k2 Constr
		switch shape {
		case 0:
			if soft {
				k2 = WeightedClause(lits, c.weight)
			} else {
				k2 = HardClause(lits...)
			}
		case 1:
			k2 = Constr{Lits: lits, AtLeast: c.atLeast, Weight: c.weight}
		default:
			co := append([]int(nil), c.coeffs...)
			if soft {
				k2 = WeightedPBConstr(lits, co, c.atLeast, c.weight)
			} else {
				k2 = HardPBConstr(lits, co, c.atLeast)
			}
		}
		ref = append(ref, c)
		cs = append(cs, k2)
	}
	return ref, cs
}

// vpSpec: minimal total weight of violated soft constraints over the
// assignments that satisfy all hard constraints (vpInf if none).
func vpSpec(ref []vpConstr) (min int, costOf func(a int) int, hardOf func(a int) bool) {
	hardOf = func(a int) bool {
		r := true
		for _, c := range ref {
			if c.weight == 0 {
				r = zzvp.And(r, c.holds(a))
			}
		}
		return r
	}
	costOf = func(a int) int {
		s := 0
		for _, c := range ref {
			if c.weight != 0 {
				s += zzvp.Ite(c.holds(a), 0, c.weight)
			}
		}
		return s
	}
	min = vpInf
	for a := 0; a < 1<<uint(len(vpNames)); a++ {
		c := costOf(a)
		better := zzvp.And(hardOf(a), c < min)
		min = zzvp.Ite(better, c, min)
	}
	return
}

// VP_C04_maxsat_api: constraint API vs the reference optimum, all map orders.
func VP_C04_maxsat_api() {
	zzvp.IntMode(true)
	zzvp.MapOrder(zzvp.Param("maporder", 3))
	ref, cs := vpSymConstrs(zzvp.Param("m", 2), zzvp.Param("k", 2), zzvp.Param("W", 2), zzvp.Param("CW", 2), zzvp.Param("shapes", 3))
	min, _, _ := vpSpec(ref)
	pb := New(cs...)
	model, cost := pb.Solve()
	if model == nil {
		zzvp.Reach("unsat")
		zzvp.Assert(cost == -1, "nil model must come with cost -1")
		zzvp.Assert(min == vpInf, "answered unsatisfiable but the hard constraints are satisfiable")
		return
	}
	zzvp.Reach("sat")
	zzvp.Assert(min != vpInf, "returned a model but the hard constraints are unsatisfiable")
	used := map[string]bool{}
	for _, c := range ref {
		for _, v := range c.vars {
			used[vpNames[v]] = true
		}
	}
	zzvp.Assert(len(model) == len(used), "model does not cover exactly the user's variables")
	for name := range used {
		_, ok := model[name]
		zzvp.Assert(ok, "a user variable is missing from the model")
	}
	viol := 0
	for _, c := range ref {
		if c.weight == 0 {
			zzvp.Assert(c.holdsM(model), "a hard constraint is violated by the returned model")
		} else {
			viol += zzvp.Ite(c.holdsM(model), 0, c.weight)
		}
	}
	zzvp.Assert(cost == viol, "reported cost differs from the weight of the violated soft constraints")
	zzvp.Assert(cost == min, "reported cost is not minimal")
}

// ---- WCNF ----

// VP_C04_maxsat_wcnf: WCNF text -> ParseWCNF -> Optimal (with and without channel).
func VP_C04_maxsat_wcnf() {
	zzvp.IntMode(true)
	n := zzvp.Choose("n", zzvp.Param("n", 2)) + 1 // highest variable used <= n
	extra := zzvp.Choose("extra", 2)                // declared-but-unused variables
	m := zzvp.Choose("m", zzvp.Param("m", 2)) + 1
	K := zzvp.Param("k", 2)
	W := zzvp.Param("W", 2)
	withTop := zzvp.Choose("top", 2) == 1
	top := W + 1
	type cl struct {
		lits []int
		w    int
	}
	var cls []cl
	for j := 0; j < m; j++ {
		k := zzvp.Choose("k", K) + 1
		c := cl{}
		for i := 0; i < k; i++ {
			l := zzvp.Concretize(zzvp.Int("l", -n, n))
			if l == 0 {
				zzvp.Assume(false)
			}
			c.lits = append(c.lits, l)
		}
		maxw := W
		if withTop {
			maxw = top // weight == top means hard
		}
		c.w = zzvp.Concretize(zzvp.Int("w", 1, maxw))
		cls = append(cls, c)
	}
	decl := n + extra
	var sb strings.Builder
	sb.WriteString("c generated\n")
	if withTop {
		fmt.Fprintf(&sb, "p wcnf %d %d %d\n", decl, m, top)
	} else {
		fmt.Fprintf(&sb, "p wcnf %d %d\n", decl, m)
	}
	for _, c := range cls {
		fmt.Fprintf(&sb, "%d", c.w)
		for _, l := range c.lits {
			fmt.Fprintf(&sb, " %d", l)
		}
		sb.WriteString(" 0\n")
	}
	text := sb.String()
	zzvp.Obs("text", text)
	// reference
	holds := func(c cl, a int) bool {
		for _, l := range c.lits {
			v := l
			if v < 0 {
				v = -v
			}
			if ((a>>uint(v-1))&1 == 1) == (l > 0) {
				return true
			}
		}
		return false
	}
	min := vpInf
	for a := 0; a < 1<<uint(decl); a++ {
		cost, ok := 0, true
		for _, c := range cls {
			if !holds(c, a) {
				if withTop && c.w >= top {
					ok = false
				} else {
					cost += c.w
				}
			}
		}
		if ok && cost < min {
			min = cost
		}
	}
	check := func(res solver.Result, route string) {
		if min == vpInf {
			zzvp.Assert(res.Status == solver.Unsat, route+": hard clauses unsatisfiable but status is not Unsat")
			return
		}
		zzvp.Assert(res.Status == solver.Sat, route+": status is not Sat although the hard clauses are satisfiable")
		zzvp.Assert(len(res.Model) == decl, route+": model length differs from the declared number of variables (relaxation variables leak or variables are missing)")
		if len(res.Model) < decl {
			return
		}
		a := 0
		for v := 0; v < decl; v++ {
			if res.Model[v] {
				a |= 1 << uint(v)
			}
		}
		cost := 0
		for _, c := range cls {
			if !holds(c, a) {
				if withTop && c.w >= top {
					zzvp.Assert(false, route+": a hard clause is violated by the returned model")
				} else {
					cost += c.w
				}
			}
		}
		zzvp.Assert(res.Weight == cost, route+": reported cost differs from the weight of the violated soft clauses")
		zzvp.Assert(res.Weight == min, route+": reported cost is not minimal")
	}
	s1, err := ParseWCNF(strings.NewReader(text))
	zzvp.Assert(err == nil, "ParseWCNF returned an error on a well-formed file")
	if err != nil {
		return
	}
	check(s1.Optimal(nil, nil), "Optimal(nil)")
	zzvp.Reach("wcnf")
	if zzvp.Param("chan", 1) == 1 {
		s2, _ := ParseWCNF(strings.NewReader(text))
		ch := make(chan solver.Result, 64)
		res := s2.Optimal(ch, nil)
		check(res, "Optimal(ch)")
	}
}
