// Package zzvp (engine side): signatures only; every call is intercepted by
// the symbolic engine. See ../zzvp/vp.go for the native semantics.
package zzvp

func Int(name string, lo, hi int) int         { return lo }
func Int32(name string) int32                  { return 0 }
func Bool(name string) bool                    { return false }
func Byte(name string, lo, hi byte) byte       { return lo }
func Choose(name string, n int) int            { return 0 }
func Param(name string, def int) int           { return def }
func Assume(c bool)                            {}
func Assert(c bool, msg string)                {}
func Reach(tag string)                         {}
func And(a, b bool) bool                       { return a && b }
func Or(a, b bool) bool                        { return a || b }
func Not(a bool) bool                          { return !a }
func Implies(a, b bool) bool                   { return !a || b }
func Eqv(a, b bool) bool                       { return a == b }
func Ite(c bool, x, y int) int                 { return x }
func IteB(c bool, x, y bool) bool              { return x }
func Concretize(x int) int                     { return x }
func ConcretizeB(b bool) bool                  { return b }
func Observe(fn string, cb interface{})        {}
func ObserveReturn(fn string, cb interface{})  {}
func MapOrder(mode int)                        {}
func Schedule(mode int)                        {}
func RaceDetect(on bool)                       {}
func Fuel(n int)                               {}
func Obs(key string, val interface{})          {}
func Symbolic() bool                           { return true }
func Output() string                           { return "" }

// IntMode lets the engine discharge queries with the mathematical-integer
// printer whenever its no-wrap interval analysis succeeds (natively a no-op).
func IntMode(on bool) {}

// Exists asks the solver whether the path condition together with c is
// satisfiable (an existential query over the symbolic variables c mentions).
// Natively it can only report the truth of c under the witness.
func Exists(c bool) bool { return c }

// Preemptions bounds the number of preemptive context switches explored per
// path (-1: unbounded). Switches at blocking operations are never bounded.
func Preemptions(n int) {}

// SetArgs sets os.Args for an interpreted main (engine); natively it records them for RunMain.
func SetArgs(args []string) {}

// SetFile creates a virtual file (engine) or a real temporary file (native).
func SetFile(path, content string) {}

// RunMain runs f (normally main) and returns the process exit code; the
// standard output is available through Output afterwards.
func RunMain(f func()) int { f(); return 0 }

// ErrOutput returns what was written to standard error.
func ErrOutput() string { return "" }
