package main

import (
	"encoding/json"
	"flag"
	"fmt"
	"os"
	"path/filepath"
	"sort"
	"strconv"
	"strings"
	"time"

	symgo "vp/symgo"
)

// repoDir is /repo; VP_REPO overrides it only for development runs against a
// scratch worktree (seeded changes); registered commands never set it.
var repoDir = func() string {
	if d := os.Getenv("VP_REPO"); d != "" {
		return d
	}
	return "/repo"
}()

func verifDir() string {
	if d := os.Getenv("VP_VERIF_DIR"); d != "" {
		return d
	}
	exe, err := os.Executable()
	if err == nil {
		d := filepath.Dir(filepath.Dir(exe))
		if _, err := os.Stat(filepath.Join(d, "engine", "harness")); err == nil {
			return d
		}
	}
	return "/verif"
}

// buildOverlay maps harness sources into the repo's packages.
func buildOverlay(symbolic bool) (map[string][]byte, error) {
	ov := map[string][]byte{}
	hdir := filepath.Join(verifDir(), "engine", "harness")
	ents, err := os.ReadDir(hdir)
	if err != nil {
		return nil, err
	}
	for _, e := range ents {
		if !e.IsDir() {
			continue
		}
		name := e.Name()
		var dst string
		switch name {
		case "zzvp":
			if symbolic {
				continue
			}
			dst = filepath.Join(repoDir, "zzvp")
		case "zzvp_sym":
			if !symbolic {
				continue
			}
			dst = filepath.Join(repoDir, "zzvp")
		case "main":
			dst = repoDir
		default:
			dst = filepath.Join(repoDir, name)
		}
		files, _ := os.ReadDir(filepath.Join(hdir, name))
		for _, f := range files {
			if !strings.HasSuffix(f.Name(), ".go") {
				continue
			}
			data, err := os.ReadFile(filepath.Join(hdir, name, f.Name()))
			if err != nil {
				return nil, err
			}
			ov[filepath.Join(dst, "zz_vp_"+f.Name())] = data
		}
	}
	return ov, nil
}

func loadProgram() (*symgo.Program, error) {
	ov, err := buildOverlay(true)
	if err != nil {
		return nil, err
	}
	t0 := time.Now()
	P, err := symgo.Load(repoDir, ov, []string{"./..."})
	if err != nil {
		return nil, err
	}
	P.LoadSeconds = time.Since(t0).Seconds()
	return P, nil
}

func parseParams(s string) map[string]int {
	m := map[string]int{}
	for _, kv := range strings.Split(s, ",") {
		if kv == "" {
			continue
		}
		p := strings.SplitN(kv, "=", 2)
		if len(p) == 2 {
			n, _ := strconv.Atoi(p[1])
			m[p[0]] = n
		}
	}
	return m
}

func cmdExplore(args []string) int {
	fs := flag.NewFlagSet("explore", flag.ExitOnError)
	h := fs.String("harness", "", "pkg.Func (pkg relative to the module, e.g. solver.VP_C01_cnf_slice)")
	params := fs.String("params", "", "k=v,k=v")
	workers := fs.Int("workers", 16, "")
	maxPaths := fs.Int("maxpaths", 0, "")
	trace := fs.Bool("trace", false, "")
	fuel := fs.Int("fuel", 0, "")
	fs.Parse(args)
	P, err := loadProgram()
	if err != nil {
		fmt.Fprintln(os.Stderr, err)
		return 2
	}
	fmt.Fprintf(os.Stderr, "loaded in %.1fs\n", P.LoadSeconds)
	name := *h
	if !strings.Contains(name, "/") {
		if strings.HasPrefix(name, "main.") {
			name = symgo.TargetPrefix + "." + strings.TrimPrefix(name, "main.")
		} else {
			name = symgo.TargetPrefix + "/" + name
		}
	}
	rep, err := symgo.Explore(P, symgo.Config{Harness: name, Params: parseParams(*params), Workers: *workers, MaxPaths: *maxPaths, Trace: *trace, Fuel: *fuel})
	if err != nil {
		fmt.Fprintln(os.Stderr, err)
		return 2
	}
	printReport(rep)
	return 0
}

func printReport(rep *symgo.RunReport) {
	st := rep.Stats
	fmt.Printf("harness %s params %v\n", rep.Harness, rep.Params)
	fmt.Printf("paths %d  outcomes %v\n", st.Paths, st.ByOutcome)
	fmt.Printf("decisions %d (forced %d)  queries %d  unknown %d  solver %.1fs  interp %.1fs  wall %.1fs\n", st.Decisions, st.Forced, st.Queries, st.Unknowns, st.SolverTime.Seconds(), st.InterpTime.Seconds(), st.Wall.Seconds())
	fmt.Printf("asserts %d (symbolic %d)  maxinstr %d  funcs %d\n", st.Asserts, st.AssertsSym, st.MaxInstrs, len(st.Funcs))
	var tags []string
	for k, v := range st.Tags {
		tags = append(tags, fmt.Sprintf("%s=%d", k, v))
	}
	sort.Strings(tags)
	fmt.Printf("tags %v\n", tags)
	for i, r := range rep.Results {
		if i >= 10 {
			break
		}
		b, _ := json.Marshal(r.Witness)
		fmt.Printf("  [%s] %s\n     witness %s choices %v obs %v\n", r.Outcome, r.Msg, b, r.HChoices, r.Obs)
		if r.Stack != "" {
			fmt.Println(r.Stack)
		}
	}
}

func main() {
	if len(os.Args) < 2 {
		fmt.Fprintln(os.Stderr, "usage: vpcheck explore|run|replay|selftest ...")
		os.Exit(2)
	}
	switch os.Args[1] {
	case "explore":
		os.Exit(cmdExplore(os.Args[2:]))
	case "run":
		os.Exit(cmdRun(os.Args[2:]))
	case "replay":
		os.Exit(cmdReplay(os.Args[2:]))
	case "list":
		// list <prop>: the harness runs of the thorough tier in execution order (Q = also in the quick tier)
		spec := props[os.Args[2]]
		seen := map[string]bool{}
		q := map[string]bool{}
		for _, r := range spec.Quick {
			q[fmt.Sprint(r.Name, r.Params, r.Fuel, r.Race)] = true
		}
		for _, r := range append(append([]HarnessRun{}, spec.Quick...), spec.Thorough...) {
			key := fmt.Sprint(r.Name, r.Params, r.Fuel, r.Race)
			if seen[key] {
				continue
			}
			seen[key] = true
			tag := "T"
			if q[key] {
				tag = "Q"
			}
			fmt.Printf("%s\t%s\t%v\n", tag, r.Name, r.Params)
		}
	default:
		fmt.Fprintln(os.Stderr, "unknown command")
		os.Exit(2)
	}
}
