package main

// Per-property harness lists and bounds. Only bounds that run clean on the
// unchanged tree are registered here.

var props = map[string]PropSpec{
	"C01": {
		ID: "C01",
		Quick: []HarnessRun{
			{Name: "solver.VP_C01_lit_arith", Kind: "L", Bounds: "every int32 with 0 < |i| < 2^30 (32-bit bit-vectors, no other bound)", Require: []string{"lit_arith"}},
			{Name: "solver.VP_C01_cnf_slice", Kind: "E", Params: map[string]int{"n": 2, "m": 3, "k": 2, "cert": 1, "smalldb": 1}, Bounds: "n<=2 variables, m<=3 clauses, k<=2 literals each, literals symbolic in [-n,n]\\{0}; Certified on/off; learnt-clause limit default/1", Require: []string{"sat", "unsat", "parse-unsat"}},
		},
		Outside: "formulas with more variables/clauses than the stated bounds; restart and clause-deletion behaviour that needs more than a handful of conflicts",
	},
}
