package main

// Per-property harness lists and bounds. Only bounds that run clean on the
// unchanged tree are registered here.

var props = map[string]PropSpec{
	"C01": {
		ID: "C01",
		Quick: []HarnessRun{
			{Name: "solver.VP_C01_lit_arith", Kind: "L", Bounds: "every int32 with 0 < |i| < 2^30 (32-bit bit-vectors, no other bound)", Require: []string{"lit_arith"}},
			{Name: "solver.VP_C01_cnf_slice", Kind: "E", Params: map[string]int{"n": 2, "m": 3, "k": 2, "cert": 1, "smalldb": 1}, Bounds: "n<=2 variables, m<=3 clauses, k<=2 literals each, literals symbolic in [-n,n]\\{0}; Certified on/off; learnt-clause limit default/1", Require: []string{"sat", "unsat", "parse-unsat"}},
			{Name: "solver.VP_C01_cnf_slice", Kind: "E", Params: map[string]int{"n": 2, "m": 2, "k": 3}, Bounds: "n<=2, m<=2 clauses, k<=3 literals each (duplicate literals and tautologies inside ternary clauses)", Require: []string{"sat", "unsat", "parse-unsat"}},
		},
		Thorough: []HarnessRun{
			{Name: "solver.VP_C01_lit_arith", Kind: "L", Bounds: "every int32 with 0 < |i| < 2^30", Require: []string{"lit_arith"}},
			{Name: "solver.VP_C01_cnf_slice", Kind: "E", Params: map[string]int{"n": 2, "m": 4, "k": 2, "cert": 1, "smalldb": 1}, Bounds: "n<=2, m<=4, k<=2", Require: []string{"sat", "unsat", "parse-unsat"}},
			{Name: "solver.VP_C01_cnf_slice", Kind: "E", Params: map[string]int{"n": 3, "m": 3, "k": 2, "cert": 1, "smalldb": 1}, Bounds: "n<=3, m<=3, k<=2", Require: []string{"sat", "unsat", "parse-unsat"}},
			{Name: "solver.VP_C01_cnf_slice", Kind: "E", Params: map[string]int{"n": 3, "m": 2, "k": 3, "cert": 1, "smalldb": 1}, Bounds: "n<=3, m<=2, k<=3", Require: []string{"sat", "unsat", "parse-unsat"}},
		},
		Outside: "formulas with more variables/clauses than the stated bounds; restart and clause-deletion behaviour that needs more than a handful of conflicts",
	},
	"C02": {
		ID: "C02",
		Quick: []HarnessRun{
			{Name: "solver.VP_C02_pb_norm", Kind: "L", Params: map[string]int{"k": 4, "W": 1 << 20, "D": 1 << 22}, Bounds: "GtEq/LtEq/Eq/AtMost on <=4 terms over distinct variables, symbolic signs, |coefficient| <= 2^20, |degree| <= 2^22, symbolic assignment; integer printer (no-wrap analysis)", Require: []string{"norm"}},
			{Name: "solver.VP_C02_pb_norm", Kind: "L", Params: map[string]int{"k": 3, "W": 15, "D": 63, "int": 0}, Bounds: "same lemma, bit-vector printer, |coefficient| <= 15, |degree| <= 63 (cross-check of the integer printer)", Require: []string{"norm"}},
			{Name: "solver.VP_C02_card_e2e", Kind: "E", Params: map[string]int{"n": 3, "m": 2, "k": 3, "unitfirst": 1}, Bounds: "n=3; one cardinality constraint (AtLeast1/AtMost1/Exactly1/CardConstr with AtLeast in [-1,k+1]) on <=3 distinct variables, optionally preceded by a unit constraint; literals symbolic", Require: []string{"sat", "parse-unsat"}},
			{Name: "solver.VP_C02_card_e2e", Kind: "E", Params: map[string]int{"n": 3, "m": 2, "k": 2}, Bounds: "n=3; <=2 cardinality constraints on <=2 distinct variables each", Require: []string{"sat", "parse-unsat"}},
			{Name: "solver.VP_C02_pb_e2e", Kind: "E", Params: map[string]int{"n": 3, "m": 1, "k": 3, "W": 2, "D": 4}, Bounds: "n=3; one constraint from PropClause/AtLeast/AtMost/GtEq/LtEq/Eq on <=3 distinct variables, coefficients in [-2,2], degree in [-4,4]", Require: []string{"sat", "unsat", "parse-unsat"}},
			{Name: "solver.VP_C02_pb_e2e", Kind: "E", Params: map[string]int{"n": 3, "m": 2, "k": 2, "unitfirst": 1, "W": 2, "D": 3}, Bounds: "n=3; a unit clause followed by one constraint on <=2 distinct variables, coefficients in [-2,2], degree in [-3,3]", Require: []string{"sat", "parse-unsat"}},
		},
		Thorough: []HarnessRun{
			{Name: "solver.VP_C02_pb_norm", Kind: "L", Params: map[string]int{"k": 4, "W": 1 << 20, "D": 1 << 22}, Bounds: "as quick", Require: []string{"norm"}},
			{Name: "solver.VP_C02_pb_norm", Kind: "L", Params: map[string]int{"k": 3, "W": 15, "D": 63, "int": 0}, Bounds: "bit-vector printer cross-check", Require: []string{"norm"}},
			{Name: "solver.VP_C02_card_e2e", Kind: "E", Params: map[string]int{"n": 3, "m": 2, "k": 3}, Bounds: "n=3; <=2 cardinality constraints on <=3 distinct variables each", Require: []string{"sat", "unsat", "parse-unsat"}},
			{Name: "solver.VP_C02_pb_e2e", Kind: "E", Params: map[string]int{"n": 3, "m": 2, "k": 3, "unitfirst": 1, "W": 2, "D": 4}, Bounds: "n=3; optional unit clause + one PB constraint on <=3 variables, coefficients [-2,2], degree [-4,4]", Require: []string{"sat", "unsat", "parse-unsat"}},
			{Name: "solver.VP_C02_pb_e2e", Kind: "E", Params: map[string]int{"n": 3, "m": 2, "k": 2, "kother": 1, "W": 2, "D": 3}, Bounds: "n=3; two constraints of any kind, the first on one variable, the second on <=2", Require: []string{"sat", "parse-unsat"}},
			{Name: "solver.VP_C02_pb_e2e", Kind: "E", Params: map[string]int{"n": 3, "m": 1, "k": 3, "W": 4, "D": 9}, Bounds: "n=3; one constraint, coefficients [-4,4], degree [-9,9]", Require: []string{"sat", "unsat", "parse-unsat"}},
		},
		Outside: "more than 3 variables end to end; more than two constraints; coefficients beyond the stated ranges end to end (the normalisation lemma covers 2^20)",
	},
	"C03": {
		ID: "C03",
		Quick: []HarnessRun{
			{Name: "solver.VP_C03_optim_cnf", Kind: "E", Params: map[string]int{"n": 2, "m": 2, "k": 2, "kc": 2, "W": 2}, Bounds: "n=2 declared variables, <=2 clauses of <=2 symbolic literals; cost function over <=2 distinct variables with symbolic polarity and weights in [0,2], or nil weights, or no cost function; Optimal and Minimize on separately built problems", Require: []string{"sat", "unsat"}},
			{Name: "solver.VP_C03_optim_cnf", Kind: "E", Params: map[string]int{"n": 3, "m": 1, "k": 2, "kc": 3, "W": 1}, Bounds: "n=3, <=1 clause, cost over <=3 variables, weights in [0,1]", Require: []string{"sat"}},
			{Name: "solver.VP_C03_optim_pb", Kind: "E", Params: map[string]int{"n": 2, "k": 2, "kc": 2, "W": 2, "PW": 2}, Bounds: "n=2; one PB constraint sum w_i l_i >= d on <=2 distinct variables, w in [1,2], d in [0,5]; cost over <=2 variables, weights [0,2]", Require: []string{"sat", "unsat"}},
		},
		Thorough: []HarnessRun{
			{Name: "solver.VP_C03_optim_cnf", Kind: "E", Params: map[string]int{"n": 3, "m": 2, "k": 2, "kc": 3, "W": 2}, Bounds: "n=3, <=2 clauses x <=2 literals, cost over <=3 variables, weights [0,2]", Require: []string{"sat", "unsat"}},
			{Name: "solver.VP_C03_optim_cnf", Kind: "E", Params: map[string]int{"n": 2, "m": 3, "k": 2, "kc": 2, "W": 3}, Bounds: "n=2, <=3 clauses, weights [0,3]", Require: []string{"sat", "unsat"}},
			{Name: "solver.VP_C03_optim_pb", Kind: "E", Params: map[string]int{"n": 3, "k": 3, "kc": 3, "W": 2, "PW": 2}, Bounds: "n=3; one PB constraint on <=3 variables; cost over <=3 variables", Require: []string{"sat", "unsat"}},
		},
		Assumptions: []string{"cost literals only mention variables the problem declares (ParsePBConstrs cannot declare more); cost weights are non-negative (negative ones only arise through ParseOPB, see C13)"},
		Outside:     "more than 3 variables; cost weights above 3; several PB constraints together with a cost function",
	},
}
