package main

// Per-property harness lists and bounds. Only bounds that run clean on the
// unchanged tree are registered here.

var props = map[string]PropSpec{
	"C01": {
		ID: "C01",
		Quick: []HarnessRun{
			{Name: "solver.VP_C01_lit_arith", Kind: "L", Bounds: "every int32 with 0 < |i| < 2^30 (32-bit bit-vectors, no other bound)", Require: []string{"lit_arith"}},
			{Name: "solver.VP_C01_cnf_slice", Kind: "E", Params: map[string]int{"n": 2, "m": 3, "k": 2, "cert": 1, "smalldb": 1}, Bounds: "n<=2 variables, m<=3 clauses, k<=2 literals each, literals symbolic in [-n,n]\\{0}; Certified on/off; learnt-clause limit default/1", Require: []string{"sat", "unsat", "parse-unsat"}},
			{Name: "solver.VP_C01_cnf_slice", Kind: "E", Params: map[string]int{"n": 2, "m": 2, "k": 3}, Bounds: "n<=2, m<=2 clauses, k<=3 literals each (duplicate literals and tautologies inside ternary clauses)", Require: []string{"sat", "unsat", "parse-unsat"}},
			{Name: "solver.VP_C01_cnf_slice", Kind: "E", Params: map[string]int{"n": 3, "m": 2, "k": 2, "copies": 2}, Bounds: "<=2 clauses x <=2 literals over <=3 variables, the first clause written 1..3 times (repeated unit clauses, repeated binary clauses)", Require: []string{"sat", "unsat"}},
			{Name: "solver.VP_C01_cnf_skeleton", Kind: "E", Params: map[string]int{"maxsigns": 10, "smalldb": 1}, Bounds: "4 fixed clause skeletons over 4-6 variables (pigeon-hole 3/2, implication cycle, 3-SAT with 8 clauses, xor chain) whose first 10 literal signs are symbolic; learnt-clause limit default/1; these need conflict analysis, backjumping and clause learning", Require: []string{"sat", "unsat", "learned"}},
			{Name: "solver.VP_C01_cnf_skeleton", Kind: "E", Fuel: 20000000, Params: map[string]int{"big": 3, "maxsigns": 9, "smalldb": 1, "cert": 1}, Bounds: "pigeon-hole 4/3 (12 variables, 22 clauses) and two fixed random 3-SAT skeletons (8 variables / 34 clauses, 10 variables / 42 clauses; VERIF_SEED picks them) with the first 9 literal signs symbolic; learnt-clause limit default/1; answers validated through themselves: Sat models against the clauses, Unsat answers through the certificate replayed by the independent RUP procedure", Require: []string{"sat", "unsat", "learned"}},
			{Name: "solver.VP_C01_cnf_skeleton", Kind: "E", Fuel: 2000000000, NoSample: true, Params: map[string]int{"big": 150, "bigfirst": 100, "maxsigns": 1, "cert": 1, "sweepn": 25, "smalldb": 1}, Bounds: "sweep: 150 random 3-SAT instances (25 variables, 107 clauses) x 1 symbolic sign x learned-clause limit 1 or default; validated through model / certificate", Require: []string{"sat", "unsat", "learned", "line"}},
			{Name: "solver.VP_C01_cnf_dimacs", Kind: "E", Params: map[string]int{"n": 2, "m": 1, "k": 2}, Bounds: "DIMACS stream with symbolic sign/digit/separator bytes, <=1 clause of <=2 literals, 0..1 unused declared variables, comments, CRLF, missing final newline: ParseCNF -> New -> Solve", Require: []string{"sat", "unsat"}},
			{Name: "solver.VP_C01_cnf_dimacs", Kind: "E", Params: map[string]int{"n": 2, "m": 2, "k": 2, "layout": 0}, Bounds: "DIMACS stream, <=2 clauses of <=2 literals, plain layout", Require: []string{"sat", "unsat"}},
		},
		Thorough: []HarnessRun{
			{Name: "solver.VP_C01_lit_arith", Kind: "L", Bounds: "every int32 with 0 < |i| < 2^30", Require: []string{"lit_arith"}},
			{Name: "solver.VP_C01_cnf_slice", Kind: "E", Params: map[string]int{"n": 3, "m": 3, "k": 2, "cert": 1, "smalldb": 1}, Bounds: "n<=3, m<=3, k<=2", Require: []string{"sat", "unsat", "parse-unsat"}},
			{Name: "solver.VP_C01_cnf_slice", Kind: "E", Params: map[string]int{"n": 3, "m": 2, "k": 3, "cert": 1, "smalldb": 1}, Bounds: "n<=3, m<=2, k<=3", Require: []string{"sat", "unsat", "parse-unsat"}},
			{Name: "solver.VP_C01_cnf_skeleton", Kind: "E", Params: map[string]int{"maxsigns": 12, "smalldb": 1}, Bounds: "skeletons with 12 symbolic signs", Require: []string{"sat", "unsat", "learned"}},
			{Name: "solver.VP_C01_cnf_skeleton", Kind: "E", Fuel: 200000000, Params: map[string]int{"big": 4, "maxsigns": 11, "smalldb": 1, "cert": 1}, Bounds: "pigeon-hole 4/3 and 5/4, two random 3-SAT skeletons, 11 symbolic signs", Require: []string{"sat", "unsat", "learned"}},
			{Name: "solver.VP_C01_cnf_skeleton", Kind: "E", Params: map[string]int{"maxsigns": 6, "nskel": 2, "steer": 1}, Bounds: "first two skeletons, 6 symbolic signs, every initial phase assignment", Require: []string{"sat", "unsat", "learned"}},
			{Name: "solver.VP_C01_cnf_dimacs", Kind: "E", Params: map[string]int{"n": 2, "m": 2, "k": 1}, Bounds: "DIMACS stream, <=2 clauses of <=1 literal, all layouts", Require: []string{"sat", "unsat"}},
		},
		Outside: "formulas with more variables/clauses than the stated bounds; restart and clause-deletion behaviour that needs more than a handful of conflicts",
	},
	"C02": {
		ID: "C02",
		Quick: []HarnessRun{
			{Name: "solver.VP_C02_pb_norm", Kind: "L", Params: map[string]int{"k": 4, "W": 1 << 20, "D": 1 << 22}, Bounds: "GtEq/LtEq/Eq/AtMost on <=4 terms over distinct variables, symbolic signs, |coefficient| <= 2^20, |degree| <= 2^22, symbolic assignment; integer printer (no-wrap analysis)", Require: []string{"norm"}},
			{Name: "solver.VP_C02_pb_norm", Kind: "L", Params: map[string]int{"k": 3, "W": 7, "D": 31, "int": 0}, Bounds: "same lemma, bit-vector printer, |coefficient| <= 7, |degree| <= 31 (cross-check of the integer printer)", Require: []string{"norm"}},
			{Name: "solver.VP_C02_card_units", Kind: "L", Params: map[string]int{"n": 3}, Bounds: "one cardinality constraint (CardConstr with AtLeast in [-1,4], AtMost1, Exactly1) over variables 1..3 with symbolic signs, together with any set of unit constraints (each variable: none/true/false), before or after it; lemma: parsed problem == constraints as written for every assignment; then Solve", Require: []string{"units-lemma", "sat", "parse-unsat"}},
			{Name: "solver.VP_C02_card_e2e", Kind: "E", Params: map[string]int{"n": 3, "m": 2, "k": 2}, Bounds: "n=3; <=2 cardinality constraints on <=2 distinct variables each, literals fully symbolic", Require: []string{"sat", "parse-unsat"}},
			{Name: "solver.VP_C02_pb_units", Kind: "L", Params: map[string]int{"n": 3, "W": 3, "D": 8}, Bounds: "one GtEq/LtEq/Eq constraint over variables 1..3, symbolic signs, coefficients in [1,3], degree in [-1,8], with any set of unit constraints before or after it; lemma: parsed problem == constraints as written for every assignment; then Solve", Require: []string{"units-lemma", "sat", "unsat", "parse-unsat"}},
			{Name: "solver.VP_C02_pb_e2e", Kind: "E", Params: map[string]int{"n": 3, "m": 1, "k": 3, "W": 2, "D": 4}, Bounds: "n=3; one constraint from PropClause/AtLeast/AtMost/GtEq/LtEq/Eq on <=3 distinct variables, literals fully symbolic, coefficients in [-2,2], degree in [-4,4]", Require: []string{"sat", "unsat", "parse-unsat"}},
			{Name: "solver.VP_C02_pb_fixpoint", Kind: "L", Params: map[string]int{"card": 1, "maxsigns": 3, "learn": 1}, Bounds: "2-3 cardinality constraints sharing variables over 4-5 variables (4 structures), degrees and 3 signs symbolic; from the state New builds, every order and polarity of decisions until all variables are assigned or propagation reports a conflict: a reported conflict constraint is falsified, and a conflict-free total assignment satisfies every constraint", Require: []string{"total-assignment", "conflict"}},
			{Name: "solver.VP_C02_pb_fixpoint", Kind: "L", Params: map[string]int{"stfrom": 4, "nstruct": 1, "maxsigns": 9, "learn": 1}, Bounds: "a binary constraint and two weighted constraints (coefficients 1-2, degree 3) over 4 variables, every sign, every sequence of decisions; at the first conflict the real conflict analysis (learnClause) is run and its result must follow from the problem for a symbolic assignment", Require: []string{"conflict", "learned-clause", "learned-unit"}},
			{Name: "solver.VP_C14_pb_skeleton", Kind: "E", Params: map[string]int{"nskel": 3, "maxsigns": 8}, Bounds: "3 PB/cardinality skeletons over 4-6 variables (pigeon-hole as cardinality constraints, weighted constraints sharing variables, parity) with 8 symbolic signs, through ParsePBConstrs, default strategy", Require: []string{"sat", "unsat"}},
			{Name: "solver.VP_C14_pb_skeleton", Kind: "E", Params: map[string]int{"skfrom": 5, "nskel": 2, "maxsigns": 8, "dshift": 1}, Bounds: "2 skeletons over 4 variables in which one constraint forces literals of an earlier one", Require: []string{"sat", "parse-unsat"}},
			{Name: "solver.VP_C02_card_skeleton", Kind: "E", Params: map[string]int{"n6": 1}, Bounds: "one cardinality constraint at-least-k over 5 variables (k in 2..4), every sign and rotation, alone or with an at-most-one and a clause, through ParseCardConstrs", Require: []string{"sat"}},
		},
		Thorough: []HarnessRun{
			{Name: "solver.VP_C02_pb_norm", Kind: "L", Params: map[string]int{"k": 4, "W": 1 << 20, "D": 1 << 22}, Bounds: "as quick", Require: []string{"norm"}},
			{Name: "solver.VP_C02_pb_norm", Kind: "L", Params: map[string]int{"k": 3, "W": 15, "D": 63, "int": 0}, Bounds: "bit-vector printer cross-check, |coefficient| <= 15", Require: []string{"norm"}},
			{Name: "solver.VP_C02_card_e2e", Kind: "E", Params: map[string]int{"n": 3, "m": 2, "k": 3}, Bounds: "n=3; <=2 cardinality constraints on <=3 distinct variables each", Require: []string{"sat", "unsat", "parse-unsat"}},
			{Name: "solver.VP_C02_card_units", Kind: "L", Params: map[string]int{"n": 4}, Bounds: "as quick with 4 variables", Require: []string{"units-lemma", "sat", "parse-unsat"}},
			{Name: "solver.VP_C02_card_skeleton", Kind: "E", Params: map[string]int{"n6": 2}, Bounds: "cardinality skeletons over 5 and 6 variables", Require: []string{"sat"}},
		},
		Outside: "more than 3 variables end to end; more than two constraints; coefficients beyond the stated ranges end to end (the normalisation lemma covers 2^20)",
	},
	"C03": {
		ID: "C03",
		Quick: []HarnessRun{
			{Name: "solver.VP_C03_optim_cnf", Kind: "E", Params: map[string]int{"n": 2, "m": 2, "k": 2, "kc": 2, "W": 2}, Bounds: "n=2 declared variables, <=2 clauses of <=2 symbolic literals; cost function over <=2 distinct variables with symbolic polarity and weights in [0,2], or nil weights, or no cost function; Optimal and Minimize on separately built problems", Require: []string{"sat", "unsat"}},
			{Name: "solver.VP_C03_optim_cnf", Kind: "E", Params: map[string]int{"n": 3, "m": 2, "k": 2, "kc": 3, "W": 1, "steer": 1, "Wlo": 1, "fullcost": 1, "unitfirst": 1}, Bounds: "n=3, a unit clause and one clause of <=2 literals, cost over all 3 variables with weights 1, every initial phase assignment of the decision heuristic (symbolic phases)", Require: []string{"sat"}},
			{Name: "solver.VP_C03_optim_pb", Kind: "E", Params: map[string]int{"n": 2, "k": 2, "kc": 2, "W": 2, "PW": 2}, Bounds: "n=2; one PB constraint sum w_i l_i >= d on <=2 distinct variables, w in [1,2], d in [0,5]; cost over <=2 variables, weights [0,2]", Require: []string{"sat", "unsat"}},
			{Name: "solver.VP_C03_optim_opb", Kind: "E", Params: map[string]int{"n": 3, "CW": 2}, Bounds: "OPB text: min: line over 3 variables (symbolic polarity, weights in [0,2]) and one cardinality constraint; Optimal and Minimize", Require: []string{"opb-optim"}},
			{Name: "solver.VP_C03_optim_skeleton", Kind: "E", Params: map[string]int{"maxsigns": 0, "W": 3}, Bounds: "3 clause skeletons over 5-6 variables, optional unit clause on any variable, cost over all variables with weights in [1,3] (solver-enumerated): several improvement rounds with weight-sorted bound constraints", Require: []string{"sat"}},
		},
		Thorough: []HarnessRun{
			{Name: "solver.VP_C03_optim_skeleton", Kind: "E", Params: map[string]int{"maxsigns": 2, "W": 3}, Bounds: "the optimisation skeletons with 2 symbolic signs, cost weights in 1..3", Require: []string{"sat"}},
		},
		Assumptions: []string{"cost literals only mention variables the problem declares (ParsePBConstrs cannot declare more); cost weights are non-negative (negative ones only arise through ParseOPB, see C13)"},
		Outside:     "more than 3 variables; cost weights above 3; several PB constraints together with a cost function",
	},
	"C05": {
		ID: "C05",
		Quick: []HarnessRun{
			{Name: "solver.VP_C05_count_cnf", Kind: "E", Params: map[string]int{"n": 3, "m": 3, "k": 2}, Bounds: "n<=3 declared variables (possibly unused), <=3 clauses x <=2 symbolic literals (including none, tautologies, units); CountModels, Enumerate(nil), Enumerate(buffered channel) on three separately built problems", Require: []string{"zero", "all", "some"}},
			{Name: "solver.VP_C05_count_skeleton", Kind: "E", Params: map[string]int{"maxsigns": 10}, Bounds: "6 clause skeletons over 4-6 variables (incl. two random 3-SAT skeletons picked by VERIF_SEED) with 10 symbolic signs: models with several decisions, blocking clauses of 3+ literals, backjumps", Require: []string{"some"}},
			{Name: "solver.VP_C05_count_cnf", Kind: "E", Params: map[string]int{"n": 2, "m": 3, "k": 2}, Bounds: "n<=2, <=3 clauses x <=2 literals", Require: []string{"zero", "all", "some"}},
			{Name: "solver.VP_C05_count_pb", Kind: "E", Params: map[string]int{"n": 3, "k": 3, "PW": 2}, Bounds: "n=3; one constraint sum w_i l_i >= d on <=3 distinct variables (w in [1,2], d in [0,7]) through ParsePBConstrs, or with unit weights through ParseCardConstrs; optional unit constraint", Require: []string{"zero", "all", "some"}},
			{Name: "solver.VP_C05_count_card", Kind: "E", Params: map[string]int{"n6": 1}, Bounds: "one cardinality constraint at-least-k over 5 variables (k in 2..4: more literals than watches), every sign, every rotation of the ascending and descending order, alone or with an at-most-one and a clause, through ParseCardConstrs", Require: []string{"some"}},
		},
		Thorough: []HarnessRun{
			{Name: "solver.VP_C05_count_cnf", Kind: "E", Params: map[string]int{"n": 3, "m": 3, "k": 2}, Bounds: "n<=3, <=3 clauses x <=2 literals", Require: []string{"zero", "all", "some"}},
			{Name: "solver.VP_C05_count_cnf", Kind: "E", Params: map[string]int{"n": 3, "m": 2, "k": 3}, Bounds: "n<=3, <=2 clauses x <=3 literals", Require: []string{"zero", "all", "some"}},
			{Name: "solver.VP_C05_count_card", Kind: "E", Params: map[string]int{"n6": 2}, Bounds: "cardinality skeletons over 5 and 6 variables", Require: []string{"some"}},
		},
		Outside: "more than 3 variables; several PB constraints; enumeration with an unbuffered channel and a concurrent consumer (see C20)",
	},
	"C06": {
		ID: "C06",
		Quick: []HarnessRun{
			{Name: "solver.VP_C06_cert_e2e", Kind: "E", Params: map[string]int{"n": 2, "m": 3, "k": 2, "smalldb": 1}, Bounds: "n<=2, <=3 clauses x <=2 symbolic literals; Certified with buffered CertChan; learnt-clause limit default/1; uncertified twin on a copy; certificate replayed by an independent RUP procedure", Require: []string{"sat", "unsat", "line"}},
			{Name: "solver.VP_C06_cert_e2e", Kind: "E", Params: map[string]int{"n": 3, "m": 2, "k": 3}, Bounds: "n<=3, <=2 clauses x <=3 literals", Require: []string{"sat", "unsat"}},
			{Name: "solver.VP_C01_cnf_skeleton", Kind: "E", Params: map[string]int{"maxsigns": 10, "smalldb": 1, "cert": 1}, Bounds: "4 skeletons over 4-6 variables with 10 symbolic signs (certificates with learned clauses, deletion with limit 1), replayed by the independent RUP procedure", Require: []string{"sat", "unsat", "learned", "line"}},
			{Name: "solver.VP_C01_cnf_skeleton", Kind: "E", Fuel: 20000000, Params: map[string]int{"big": 3, "maxsigns": 9, "smalldb": 1, "cert": 1}, Bounds: "pigeon-hole 4/3 and two random 3-SAT skeletons (8-12 variables) with 9 symbolic signs: certificates with tens of learned clauses and clause deletion", Require: []string{"sat", "unsat", "learned", "line"}},
			{Name: "solver.VP_C01_cnf_skeleton", Kind: "E", Fuel: 2000000000, NoSample: true, Params: map[string]int{"big": 1, "bigfirst": 5, "maxsigns": 2, "cert": 1}, Bounds: "pigeon-hole 8/6 (48 variables, 176 clauses, hundreds of conflicts, restarts) with 2 symbolic signs: certificate of ~600 lines replayed by the independent RUP procedure", Require: []string{"unsat", "learned", "line"}},
			{Name: "solver.VP_C01_cnf_skeleton", Kind: "E", Fuel: 2000000000, NoSample: true, Params: map[string]int{"big": 200, "bigfirst": 100, "maxsigns": 1, "cert": 1, "sweepn": 40}, Bounds: "sweep: 200 random 3-SAT instances at the threshold (40 variables, 172 clauses, tens of conflicts, learned binary clauses, restarts) x 1 symbolic sign; Sat answers validated through the model, Unsat answers and every emitted line through the independent RUP procedure", Require: []string{"sat", "unsat", "learned", "line"}},
			{Name: "solver.VP_C01_cnf_skeleton", Kind: "E", NoSample: true, Params: map[string]int{"big": 1, "bigfirst": 7, "maxsigns": 8, "cert": 1}, Bounds: "a satisfiable 9-variable structure in which a learned binary clause later propagates from its second literal, 8 symbolic signs", Require: []string{"sat", "line"}},
		},
		Thorough: []HarnessRun{
			{Name: "solver.VP_C01_cnf_skeleton", Kind: "E", Params: map[string]int{"maxsigns": 12, "smalldb": 1, "cert": 1}, Bounds: "skeletons with 12 symbolic signs, certified", Require: []string{"sat", "unsat", "learned", "line"}},
		},
		Outside: "certificates written to stdout (CertChan nil) are covered through C19 only; formulas beyond the bounds; certificates with clause deletion on larger instances",
	},
	"C07": {
		ID: "C07",
		Quick: []HarnessRun{
			{Name: "explain.VP_C07_mus", Kind: "E", Params: map[string]int{"n": 2, "m": 3, "k": 2, "second": 0}, Bounds: "problems of <=3 clauses x <=2 literals over 2 variables (units, repeated clauses, trivially conflicting units, several cores), solver-enumerated; methods MUS, MUSDeletion, MUSInsertion, MUSMaxSat (the last one only on problems with at most one MUS: known finding)", Require: []string{"sat", "unsat"}},
			{Name: "explain.VP_C07_mus", Kind: "E", Params: map[string]int{"skel": 1, "maxsigns": 2}, Bounds: "3 unsatisfiable clause skeletons of 10-12 clauses over 6-7 variables (pigeon-hole plus clauses outside the core; unit, binary and ternary clauses; an implication cycle), every polarity of every variable (2^n), 2 further symbolic signs, 0..1 declared-but-unused variable; methods MUS, MUSDeletion, MUSInsertion (several conflicts and learned clauses between the internal assumption rounds), each followed by a second extraction (MUS or MUSInsertion) on the same Problem value, which must be as good as the first", Require: []string{"unsat"}},
		},
		Thorough:    []HarnessRun{},
		Assumptions: []string{"the literals are concretised when the DIMACS text is rendered (the API takes text), so the engine explores one path per input; the deciding step per input is the interpretation of the real code against an independent brute-force oracle"},
		Outside:     "more than 4 clauses or 3 variables outside the 3 skeletons; MUSMaxSat on problems with several MUSes (known finding) and on the skeletons",
	},
	"C08": {
		ID: "C08",
		Quick: []HarnessRun{
			{Name: "explain.VP_C08_checker", Kind: "E", Params: map[string]int{"n": 2, "m": 2, "k": 2, "cm": 1, "ck": 2}, Bounds: "problems of <=2 clauses x <=2 literals over 2 variables; certificates of <=1 line of <=2 literals (empty clause included), arbitrary; reader and channel entry points; second identical call", Require: []string{"valid", "invalid"}},
			{Name: "explain.VP_C08_checker", Kind: "E", Params: map[string]int{"n": 2, "m": 1, "k": 2, "cm": 2, "ck": 2}, Bounds: "problems of <=1 clause; certificates of <=2 lines", Require: []string{"valid", "invalid"}},
			{Name: "explain.VP_C08_checker", Kind: "E", Params: map[string]int{"n": 3, "shape": 1}, Bounds: "3 variables: a unit clause and a binary clause; a certificate of a binary line followed by a line of <=1 literal", Require: []string{"valid", "invalid"}},
			{Name: "explain.VP_C08_checker", Kind: "E", Params: map[string]int{"n": 2, "shape": 2, "cm": 1, "ck": 1}, Bounds: "the four binary clauses over 2 variables with every sign pattern (256 problems, among them the unsatisfiable square that unit propagation alone does not refute), certificates of <=1 line of <=1 literal through both entry points; afterwards the empty-clause certificate and each line alone must get the answer a fresh problem gives", Require: []string{"valid", "invalid"}},
			{Name: "explain.VP_C08_subset", Kind: "E", Params: map[string]int{"n": 2, "m": 3, "k": 2}, Bounds: "UnsatSubset on problems of <=3 clauses x <=2 literals over 2 variables", Require: []string{"sat", "unsat"}},
		},
		Thorough: []HarnessRun{
			{Name: "explain.VP_C08_subset", Kind: "E", Params: map[string]int{"n": 3, "m": 3, "k": 2}, Bounds: "3 variables", Require: []string{"sat", "unsat"}},
		},
		Assumptions: []string{"completeness is asserted only for lines without complementary literals (whether a tautology is 'derivable by unit propagation' is a matter of definition)"},
		Outside:     "longer certificates; genuine solver traces as certificates are exercised through UnsatSubset (C08 subset, C07) and C06",
	},
	"C09": {
		ID: "C09",
		Quick: []HarnessRun{
			{Name: "solver.VP_C09_append_hist", Kind: "E", Params: map[string]int{"n": 2, "m": 1, "k": 2, "steps": 1, "ka": 2, "W": 2, "distinct": 0}, Bounds: "base: <=1 clause of <=2 literals over 2 declared variables; one operation from {Solve, AppendClause(clause), AppendClause(cardinality), AppendClause(PB)} on <=2 literals over 3 variables (one unseen; repeated and complementary literals included), weights in [1,2], then Solve", Require: []string{"sat", "unsat", "add-clause", "add-card", "add-pb"}},
			{Name: "solver.VP_C09_append_hist", Kind: "E", Params: map[string]int{"n": 2, "m": 1, "k": 1, "steps": 2, "ka": 1, "W": 1}, Bounds: "base: <=1 unit clause; two operations with unit constraints (already satisfied, contradictory, new variable), Solve in between or not, then Solve", Require: []string{"sat", "unsat"}},
			{Name: "solver.VP_C09_append_hist", Kind: "E", Params: map[string]int{"n": 1, "m": 1, "k": 1, "steps": 2, "ka": 2, "W": 1, "distinct": 0, "newvars": 2}, Bounds: "base over 1 variable; two additions of <=2 literals over 3 variables, so that variable indices are skipped when the solver grows", Require: []string{"sat", "unsat"}},
			{Name: "solver.VP_C09_append_hist", Kind: "E", Params: map[string]int{"n": 2, "m": 1, "k": 1, "steps": 1, "ka": 3, "W": 1, "distinct": 0}, Bounds: "one added clause / cardinality / PB constraint of <=3 literals over variables 1..3 in which a variable may occur two or three times, with either sign (x + x + ~x)", Require: []string{"sat", "unsat", "add-card", "add-pb"}},
			{Name: "solver.VP_C09_append_hist", Kind: "E", Params: map[string]int{"n": 3, "newvars": 0, "m": 1, "k": 2, "steps": 1, "ka": 3, "W": 1, "distinct": 1}, Bounds: "base of one clause of <=2 literals over 3 variables, one added clause / cardinality / PB constraint of <=3 distinct variables (constraints that force several literals at once)", Require: []string{"sat", "unsat", "add-card", "add-pb"}},
		},
		Thorough: []HarnessRun{
			{Name: "solver.VP_C09_append_hist", Kind: "E", Params: map[string]int{"n": 3, "m": 1, "k": 2, "steps": 1, "ka": 3, "W": 1, "distinct": 1}, Bounds: "base of one clause over 3 variables, one added constraint of <=3 distinct variables out of 4 (one new)", Require: []string{"sat", "unsat", "add-card", "add-pb"}},
		},
		Outside: "histories longer than two additions; added constraints of more than 2 literals; more than 3 variables",
	},
	"C10": {
		ID: "C10",
		Quick: []HarnessRun{
			{Name: "solver.VP_C10_assume_rounds", Kind: "E", Params: map[string]int{"n": 2, "m": 2, "k": 2, "rounds": 2, "ka": 2}, Bounds: "base CNF n=2, <=2 clauses x <=2 literals (with unit clauses and parse-time facts); <=2 rounds of <=2 assumed literals each (empty, repeated, complementary, contradicting a fact or the previous round)", Require: []string{"sat", "unsat", "base-unsat"}},
			{Name: "solver.VP_C10_assume_skeleton", Kind: "E", Params: map[string]int{"nskel": 3, "maxsigns": 8, "rounds": 2, "ka": 1}, Bounds: "3 skeletons with ternary clauses over 3-4 variables, 8 symbolic signs, <=2 rounds of <=1 symbolic assumption: rounds in which a conflict learns a unit or a clause", Require: []string{"sat", "unsat", "unit-learned"}},
			{Name: "solver.VP_C10_assume_skeleton", Kind: "E", Params: map[string]int{"nskel": 7, "maxsigns": 6, "rounds": 2, "ka": 1}, Bounds: "all 7 skeletons (the 4 CDCL skeletons of C01 have 5-6 variables), 6 symbolic signs, <=2 rounds of <=1 symbolic assumption; every constraint learned during a round is checked to follow from the formula alone", Require: []string{"sat", "unsat", "unit-learned"}},
		},
		Thorough: []HarnessRun{
			{Name: "solver.VP_C10_assume_rounds", Kind: "E", Params: map[string]int{"n": 2, "m": 2, "k": 2, "rounds": 3, "ka": 1}, Bounds: "three rounds of <=1 literal", Require: []string{"sat", "unsat"}},
			{Name: "solver.VP_C10_assume_rounds", Kind: "E", Params: map[string]int{"n": 3, "m": 2, "k": 2, "rounds": 2, "ka": 1}, Bounds: "n=3, two rounds of <=1 literal", Require: []string{"sat", "unsat"}},
		},
		Outside: "more than 3 rounds or 3 variables; assumptions combined with AppendClause",
	},
	"C11": {
		ID: "C11",
		Quick: []HarnessRun{
			{Name: "bf.VP_C11_bf_solve", Kind: "E", Params: map[string]int{"nodes": 2, "depth": 2, "nvars": 2, "arity": 2}, Bounds: "all formula trees with <=2 connective nodes (not, and/or of arity 0..2, implies, eq, xor), depth <=2, leaves a, b, true, false; the truth-table side is decided by the solver over symbolic assignments", Require: []string{"nil", "model"}},
			{Name: "bf.VP_C11_bf_solve", Kind: "E", Params: map[string]int{"nodes": 2, "depth": 2, "nvars": 1, "arity": 1, "uniq": 6, "consts": 0}, Bounds: "exactly-one groups of size 0..6 (auxiliary variables from 5) under not/and/or/implies/eq/xor; groups of 5 or more only at positive polarity (known finding)", Require: []string{"nil", "model"}},
			{Name: "bf.VP_C11_bf_solve", Kind: "E", Params: map[string]int{"spine": 3, "context": 1}, Bounds: "alternation chains op(l1, op(l2, op(l3, l4))) with op in {and, or} and signed leaves, conjoined with unit literals on any subset of the variables", Require: []string{"nil", "model"}},
			{Name: "bf.VP_C11_bf_solve", Kind: "E", Params: map[string]int{"chain": 4}, Bounds: "chains of 4 equivalences / exclusive-ors over 5 signed leaves, nested to the left or to the right (operands are duplicated by the translation, so sub-formulas repeat under different guards)", Require: []string{"model"}},
			{Name: "bf.VP_C11_bf_solve", Kind: "E", Params: map[string]int{"wide": 6}, Bounds: "a disjunction (or conjunction) of 0..6 signed literals and one conjunction (or disjunction) of two literals placed first or last", Require: []string{"model"}},
			{Name: "bf.VP_C11_bf_solve", Kind: "E", Params: map[string]int{"groups2": 6}, Bounds: "and/or of two exactly-one groups of 1, 4, 5 or 6 consecutive names starting at offset 0..2, second and third member optionally swapped (overlapping groups, same members in another order)", Require: []string{"model"}},
		},
		Thorough: []HarnessRun{
			{Name: "bf.VP_C11_bf_solve", Kind: "E", Params: map[string]int{"nodes": 3, "depth": 3, "nvars": 2, "arity": 2}, Bounds: "<=3 connective nodes, depth <=3", Require: []string{"nil", "model"}},
			{Name: "bf.VP_C11_bf_solve", Kind: "E", Params: map[string]int{"nodes": 3, "depth": 3, "nvars": 1, "arity": 2, "uniq": 6, "consts": 0}, Bounds: "exactly-one groups up to size 6 with <=3 connectives", Require: []string{"nil", "model"}},
			{Name: "bf.VP_C11_bf_solve", Kind: "E", Params: map[string]int{"spine": 4, "context": 1}, Bounds: "alternation chains of depth 4 with unit contexts", Require: []string{"nil", "model"}},
		},
		Outside: "trees with more connectives; exactly-one groups of 5 or more variables under negation (known finding C11-negated-unique-aux)",
	},
	"C12": {
		ID: "C12",
		Quick: []HarnessRun{
			{Name: "bf.VP_C12_bf_dimacs", Kind: "E", Params: map[string]int{"nodes": 2, "depth": 2, "nvars": 2, "arity": 2}, NoSample: true, Bounds: "formula trees as C11 (<=2 connectives); export parsed by the harness; (i) CNF(x,y) => f(x) decided for symbolic x, y; (ii) for every model x of f the solver is asked whether CNF(x, y) is satisfiable", Require: []string{"dimacs", "extends"}},
			{Name: "bf.VP_C12_bf_dimacs", Kind: "E", Params: map[string]int{"spine": 4}, NoSample: true, Bounds: "alternation chains of depth 4 (and/or, signed leaves)", Require: []string{"dimacs", "extends"}},
			{Name: "bf.VP_C12_bf_dimacs", Kind: "E", Params: map[string]int{"wide": 6}, NoSample: true, Bounds: "a disjunction (or conjunction) of 0..6 signed literals and one conjunction (or disjunction) of two literals placed first or last", Require: []string{"dimacs", "extends"}},
			{Name: "bf.VP_C12_bf_dimacs", Kind: "E", Params: map[string]int{"chain": 3}, NoSample: true, Bounds: "chains of 3 equivalences / exclusive-ors over signed leaves", Require: []string{"dimacs", "extends"}},
			{Name: "bf.VP_C12_bf_dimacs", Kind: "E", Params: map[string]int{"groups2": 6}, NoSample: true, Bounds: "and/or of two exactly-one groups of 1, 4, 5 or 6 names (overlapping, permuted)", Require: []string{"dimacs", "extends"}},
			{Name: "bf.VP_C12_bf_dimacs", Kind: "E", Params: map[string]int{"nodes": 1, "depth": 2, "nvars": 1, "arity": 1, "uniq": 6, "consts": 0, "posonly": 1}, NoSample: true, Bounds: "exactly-one groups of size 0..6 at positive polarity", Require: []string{"dimacs", "extends"}},
		},
		Thorough: []HarnessRun{
			{Name: "bf.VP_C12_bf_dimacs", Kind: "E", Params: map[string]int{"nodes": 3, "depth": 3, "nvars": 2, "arity": 2}, NoSample: true, Bounds: "<=3 connectives", Require: []string{"dimacs", "extends"}},
			{Name: "bf.VP_C12_bf_dimacs", Kind: "E", Params: map[string]int{"spine": 5}, NoSample: true, Bounds: "alternation chains of depth 5", Require: []string{"dimacs", "extends"}},
		},
		Assumptions: []string{"native cross-validation of sampled paths is skipped for this harness (zzvp.Exists has no native counterpart); counterexamples are still replayed natively"},
		Outside:     "larger trees; exactly-one groups under negation (the property excludes them)",
	},
	"C17": {
		ID: "C17",
		Quick: []HarnessRun{
			{Name: "bf.VP_C17_bf_parse", Kind: "E", Params: map[string]int{"bin": 1, "nots": 1, "groups": 1, "wraps": 1}, Bounds: "syntax trees with <=1 binary operator from ; = -> | &, <=1 negation, <=1 exactly-one group {..} of 1..3 names, <=1 redundant parenthesis pair; identifiers a, b, ab; three spacings; equivalence with the documented reading decided over symbolic assignments", Require: []string{"parsed"}},
			{Name: "bf.VP_C17_bf_parse", Kind: "E", Params: map[string]int{"bin": 2, "nots": 1, "groups": 0, "wraps": 0, "spacing": 0}, Bounds: "<=2 binary operators (all priority pairs, left and right nesting), <=1 negation", Require: []string{"parsed"}},
			{Name: "bf.VP_C17_bf_parse", Kind: "E", Params: map[string]int{"bin": 2, "nots": 0, "groups": 0, "wraps": 1, "spacing": 0}, Bounds: "<=2 binary operators with one redundant parenthesis pair anywhere", Require: []string{"parsed"}},
			{Name: "bf.VP_C17_bf_parse_err", Kind: "E", Params: map[string]int{"bin": 1, "nots": 1, "groups": 1, "wraps": 1}, Bounds: "renderings as above with one corruption: operand deleted, binary operator duplicated, extra ')' at the end, extra '(' at the start, trailing identifier", Require: []string{"rejected"}},
		},
		Thorough: []HarnessRun{
			{Name: "bf.VP_C17_bf_parse", Kind: "E", Params: map[string]int{"bin": 2, "nots": 1, "groups": 1, "wraps": 0, "spacing": 0}, Bounds: "<=2 binary operators with negations and exactly-one groups, no redundant parentheses, one spacing", Require: []string{}},
		},
		Assumptions: []string{"a text that ends with ';' after a complete formula is tolerated by the parser on purpose (trailing separator); such texts are excluded from the corruption generator as doubtful"},
		Outside:     "longer texts; identifiers other than a, b, ab; comments and string literals that text/scanner recognises",
	},
	"C04": {
		ID: "C04",
		Quick: []HarnessRun{
			{Name: "maxsat.VP_C04_maxsat_api", Kind: "E", Params: map[string]int{"m": 2, "k": 1, "W": 2, "CW": 2}, Bounds: "<=2 constraints on one variable each out of {a,b,c}, hard or soft (weight in [1,2]), clause / cardinality / PB shape, symbolic signs; every iteration order of the weight map", Require: []string{"sat", "unsat"}},
			{Name: "maxsat.VP_C04_maxsat_api", Kind: "E", Params: map[string]int{"m": 1, "k": 3, "W": 2, "CW": 2}, Bounds: "one constraint on <=3 variables, any shape, coefficients in [1,2]", Require: []string{"sat"}},
			{Name: "maxsat.VP_C04_maxsat_api", Kind: "E", Params: map[string]int{"m": 2, "k": 2, "W": 1, "CW": 1}, Bounds: "<=2 constraints on <=2 variables each, unit weights and coefficients, symbolic signs and degrees", Require: []string{"sat", "unsat"}},
			{Name: "maxsat.VP_C04_maxsat_wcnf", Kind: "E", Params: map[string]int{"n": 2, "m": 2, "k": 2, "W": 2}, Bounds: "WCNF texts: <=2 variables used, 0..1 declared-but-unused, <=2 clauses x <=2 literals, weights in [1,2] (or top = 3 for hard), with and without top; Optimal(nil) and Optimal(channel)", Require: []string{"wcnf"}},
			{Name: "maxsat.VP_C04_maxsat_skeleton", Kind: "E", Params: map[string]int{"nw": 3, "maxsigns": 2, "W": 1, "maporder": 2}, Bounds: "2 skeletons of 9-10 constraints over 4-5 variables (hard clauses, weighted soft clauses with distinct weights, several improving models before the optimum); 3 soft weights range over base-1..base+1, 2 soft polarities symbolic, every rotation of the constraint map order", Require: []string{"sat"}},
		},
		Thorough: []HarnessRun{
			{Name: "maxsat.VP_C04_maxsat_skeleton", Kind: "E", Params: map[string]int{"nw": 3, "maxsigns": 4, "W": 1, "maporder": 2}, Bounds: "the 2 MaxSAT skeletons with 3 weight neighbourhoods and 4 symbolic polarities", Require: []string{"sat"}},
		},
		Assumptions: []string{"each variable occurs at most once inside a constraint"},
		Outside:     "more than 2 constraints through the API / 3 clauses through WCNF outside the 2 skeletons; weights above 2 outside the skeletons; constraints repeating a variable",
	},
	"C13": {
		ID: "C13",
		Quick: []HarnessRun{
			{Name: "solver.VP_C13_dimacs", Kind: "E", Params: map[string]int{"n": 2, "m": 1, "k": 2}, Bounds: "DIMACS: header with 0..1 unused declared variables, optional comment lines, <=1 clause of <=2 literals whose sign, digit and separator bytes are symbolic (blank, tab, newline, doubled blanks), LF/CRLF/no final newline", Require: []string{"dimacs", "clauses"}},
			{Name: "solver.VP_C13_dimacs", Kind: "E", Params: map[string]int{"n": 2, "m": 2, "k": 1}, Bounds: "DIMACS: <=2 clauses of <=1 literal (several clauses on a line, empty clauses)", Require: []string{"dimacs", "clauses"}},
			{Name: "solver.VP_C13_opb", Kind: "E", Params: map[string]int{"n": 2, "m": 1, "k": 2, "W": 2, "D": 3, "layout": 0}, Bounds: "OPB: optional min: line over <=2 variables (weights in [0,2]), one constraint of <=2 terms, coefficients in [-2,2], >= or =, degree in [-3,3]", Require: []string{"opb"}},
			{Name: "solver.VP_C13_opb", Kind: "E", Params: map[string]int{"n": 2, "m": 2, "k": 1, "W": 1, "D": 1, "CW": 1}, Bounds: "OPB: two constraints of one term (contradictory / repeated units, trivially true and false constraints), comment lines, explicit + signs", Require: []string{"opb"}},
			{Name: "solver.VP_C13_opb_skeleton", Kind: "E", Params: map[string]int{"skfrom": 5, "nskel": 2, "maxsigns": 8, "dshift": 1}, Bounds: "2 OPB skeletons over 4 variables (a clause pair before a weighted constraint that forces two variables; one weighted constraint of 4 terms), every sign, >= or =, degree shifted by 0/1; parsed problem vs text for a symbolic assignment, then verdict, model and model count of the solver on the parsed problem vs the text", Require: []string{"opb", "sat", "unsat"}},
			{Name: "solver.VP_C13_opb_skeleton", Kind: "E", Params: map[string]int{"nskel": 3, "maxsigns": 6}, Bounds: "the 3 PB skeletons of C14 over 4-6 variables as OPB text, 6 symbolic signs, >= or =", Require: []string{"opb", "sat", "unsat"}},
			{Name: "maxsat.VP_C04_maxsat_wcnf", Kind: "E", Params: map[string]int{"n": 2, "m": 2, "k": 2, "W": 2, "chan": 0}, Bounds: "WCNF texts as in C04, judged by the optimum they yield", Require: []string{"wcnf"}},
		},
		Thorough: []HarnessRun{
			{Name: "solver.VP_C13_opb_skeleton", Kind: "E", Params: map[string]int{"nskel": 7, "maxsigns": 4}, Bounds: "all 7 PB skeletons (4-8 variables) as OPB text, 4 symbolic signs, >= or =", Require: []string{"opb", "sat", "unsat"}},
			{Name: "solver.VP_C13_opb", Kind: "E", Params: map[string]int{"n": 2, "m": 1, "k": 2, "W": 2, "D": 3}, Bounds: "OPB as quick with all layout variants", Require: []string{"opb"}},
		},
		Assumptions: []string{"OPB and WCNF numbers are concretised when the text is rendered (solver-enumerated), DIMACS body bytes stay symbolic", "layouts of doubtful well-formedness are not generated: a comment line after a blank line, blanks after the terminating ';', a min: line that is not first"},
		Outside:     "files with more symbolic content than stated; the 64 KiB line limit of bufio.Scanner; numbers of more than one digit",
	},
	"C14": {
		ID: "C14",
		Quick: []HarnessRun{
			{Name: "solver.VP_C14_cp_clash", Kind: "L", Params: map[string]int{"n": 3}, Bounds: "pbSet.clash on two constraints over 3 variables, |weight| <= 2^20, degree in [1, 2^22], every assignment; integer printer", Require: []string{"clash"}},
			{Name: "solver.VP_C14_cp_clash", Kind: "L", Params: map[string]int{"n": 2, "W": 3, "C": 7, "int": 0}, Bounds: "same lemma with the bit-vector printer, |weight| <= 3, degree <= 7", Require: []string{"clash"}},
			{Name: "solver.VP_C14_cp_round", Kind: "L", Params: map[string]int{"n": 3}, Bounds: "pbSet.roundToOne (for every solver assignment of the 3 variables and every locked variable) and pbSet.divideBy, |weight| <= 2^20, degree in [1, 2^22]; integer printer", Require: []string{"divide", "round"}},
			{Name: "solver.VP_C02_pb_units", Kind: "E", Params: map[string]int{"n": 3, "W": 2, "D": 5, "cp": 1}, Bounds: "C02 pb_units inputs with CuttingPlanes symbolic (on/off), in-situ monitor: every learned constraint and derived unit is implied by the problem (symbolic assignment); lemma preconditions asserted at divideBy", Require: []string{"sat", "unsat", "cp-unit"}},
			{Name: "solver.VP_C01_cnf_slice", Kind: "E", Params: map[string]int{"n": 3, "m": 2, "k": 2, "cp": 1, "amo": 1}, Bounds: "CNF n<=3, <=2 clauses x <=2 literals, CuttingPlanes on/off x DetectAtMostOne on/off", Require: []string{"sat", "unsat"}},
			{Name: "solver.VP_C03_optim_pb", Kind: "E", Params: map[string]int{"n": 2, "k": 2, "kc": 2, "W": 2, "PW": 2, "cp": 1}, Bounds: "C03 optim_pb inputs (n=2) with CuttingPlanes on/off: same optimum as the reference", Require: []string{"sat", "unsat"}},
			{Name: "solver.VP_C14_pb_skeleton", Kind: "E", Params: map[string]int{"maxsigns": 8, "cp": 1}, Bounds: "3 PB/cardinality skeletons over 4-6 variables (pigeon-hole as cardinality constraints, weighted constraints, parity) with 8 symbolic signs, CuttingPlanes on/off, learned-constraint monitor", Require: []string{"sat", "unsat", "cp-unit"}},
			{Name: "solver.VP_C14_pb_skeleton", Kind: "E", Params: map[string]int{"skfrom": 3, "nskel": 2, "maxsigns": 6, "cp": 1}, Fuel: 3000000, Bounds: "2 weighted PB skeletons over 7 and 8 variables (5-6 constraints of up to 8 literals) with 6 symbolic signs; termination is checked with an instruction budget of 3*10^6 (longest terminating path observed: 1.2*10^6)", Require: []string{"sat", "unsat", "cp-unit"}},
			{Name: "solver.VP_C01_cnf_skeleton", Kind: "E", Params: map[string]int{"maxsigns": 8, "cp": 1, "amo": 1}, Bounds: "4 CNF skeletons with 8 symbolic signs, CuttingPlanes on/off x DetectAtMostOne on/off", Require: []string{"sat", "unsat"}},
			{Name: "solver.VP_C02_pb_fixpoint", Kind: "E", Params: map[string]int{"card": 1, "maxsigns": 7, "e2e": 1, "cp": 1}, Bounds: "2-3 cardinality constraints sharing variables over 4-5 variables (4 structures), degrees and 7 signs symbolic, solved with CuttingPlanes on/off, learned-constraint monitor", Require: []string{"sat", "unsat", "cp-unit"}},
		},
		Thorough: []HarnessRun{
			{Name: "solver.VP_C14_pb_skeleton", Kind: "E", Params: map[string]int{"skfrom": 3, "nskel": 2, "maxsigns": 8, "cp": 1}, Fuel: 3000000, Bounds: "the 7- and 8-variable PB skeletons with 8 symbolic signs under an instruction budget", Require: []string{"sat", "unsat", "cp-unit"}},
			{Name: "solver.VP_C02_card_skeleton", Kind: "E", Params: map[string]int{"n6": 1, "cp": 1, "amo": 1}, Bounds: "cardinality skeletons over 5 variables with CuttingPlanes and at-most-one detection symbolic", Require: []string{"sat"}},
		},
		Assumptions: []string{"the arithmetic lemmas assume the degree stays >= 1 after weakening; that precondition is asserted in situ at every divideBy call of the end-to-end runs"},
		Outside:     "Luby restarts and PB clause deletion (need hundreds of conflicts); problems beyond 3-4 variables",
	},
	"C15": {
		ID: "C15",
		Quick: []HarnessRun{
			{Name: "solver.VP_C15_amo_equiv", Kind: "L", Params: map[string]int{"skeletons": 1, "maxsigns": 6, "dup": 1}, Bounds: "the 12 skeletons with 6 symbolic signs and one clause optionally repeated (right after the original or at the end)", Require: []string{"card-detected", "nothing-detected"}},
			{Name: "solver.VP_C15_amo_equiv", Kind: "L", Params: map[string]int{"skeletons": 1, "maxsigns": 8}, Bounds: "12 clause skeletons rich in binary clauses (triangle, K4, K4 minus an edge in two orders, triangles sharing an edge, repeated clause, pendant clauses, disjoint triangles, cliques between unrelated clauses, star), the signs of the first 8 literals symbolic; equivalence before/after for a symbolic assignment", Require: []string{"card-detected", "nothing-detected"}},
			{Name: "solver.VP_C15_amo_equiv", Kind: "L", Params: map[string]int{"n": 3, "m": 3, "k": 2}, Bounds: "all CNF with <=3 clauses x <=2 literals over 3 variables, literals fully symbolic", Require: []string{"card-detected", "nothing-detected"}},
		},
		Thorough: []HarnessRun{
			{Name: "solver.VP_C15_amo_equiv", Kind: "L", Params: map[string]int{"skeletons": 1, "maxsigns": 10}, Bounds: "the 12 skeletons with up to 10 symbolic signs", Require: []string{"card-detected", "nothing-detected"}},
		},
		Outside: "larger cliques than K4; PB problems (DetectAtMostOne only looks at binary clauses); the end-to-end effect is covered by the amo=1 rows of C14",
	},
	"C18": {
		ID: "C18",
		Quick: []HarnessRun{
			{Name: "solver.VP_C18_print_roundtrip", Kind: "E", Params: map[string]int{"n": 2, "m": 2, "k": 2, "W": 2, "D": 3}, Bounds: "CNF (<=2 clauses x <=2 literals), cardinality and PB problems over 2 variables after parse-time simplification, with and without cost function; routes Problem.CNF->ParseCNF, Problem.PBString->ParseOPB, Solver.PBString->ParseOPB before and after Solve; models and costs compared for a symbolic assignment", Require: []string{"cnf", "opb", "solver-opb", "solver-opb-after-solve"}},
			{Name: "solver.VP_C18_print_roundtrip", Kind: "E", Params: map[string]int{"n": 3, "m": 1, "k": 2, "W": 2, "D": 4, "CW": 1}, Bounds: "3 variables, <=1 clause, coefficients in [1,2]", Require: []string{"opb", "solver-opb"}},
			{Name: "explain.VP_C18_explain_cnf", Kind: "E", Params: map[string]int{"n": 2, "m": 3, "k": 2}, Bounds: "explain.Problem.CNF() of problems with <=3 clauses x <=2 literals re-read by explain.ParseCNF", Require: []string{"explain-cnf"}},
			{Name: "solver.VP_C18_solver_print_skeleton", Kind: "E", Params: map[string]int{"maxsigns": 10}, Bounds: "Solver.PBString after a Solve on 4 CNF skeletons over 4-6 variables with 10 symbolic signs (solver states holding learned clauses) re-read by ParseOPB", Require: []string{"solver-opb-after-solve", "learned"}},
		},
		Thorough: []HarnessRun{
			{Name: "solver.VP_C18_solver_print_skeleton", Kind: "E", Params: map[string]int{"maxsigns": 12}, Bounds: "Solver.PBString after Solve on the CNF skeletons with 12 symbolic signs", Require: []string{}},
		},
		Assumptions: []string{"a variable the rendering no longer mentions is read as unconstrained; a smaller NbVars alone is not a violation (OPB has no variable-count field that ParseOPB reads)"},
		Outside:     "negative cost coefficients (known finding C03-negative-cost-coefficients); more than 3 variables",
	},
	"C16": {
		ID: "C16",
		Quick: []HarnessRun{
			{Name: "solver.VP_C16_two_solvers", Kind: "E", Race: true, Params: map[string]int{"kinds": 4, "preempt": 1}, Bounds: "two goroutines, each one use out of {CDCL with conflict analysis (pigeon-hole 3/2 and a satisfiable variant), CountModels, Minimize with several improving results, PB solving} on its own data; happens-before monitor on every load, store, append and copy; every schedule at go/channel operations with <=1 preemption; results compared with sequential runs", Require: []string{"two-uses"}},
			{Name: "explain.VP_C16_explain", Kind: "E", Race: true, Params: map[string]int{"first": 3, "methods": 2}, Bounds: "two goroutines running UnsatSubset / MUSDeletion on problems that need search (so that the library's internal solver goroutine and certificate channel are exercised), happens-before monitor, all non-preemptive schedules", Require: []string{"two-uses"}},
			{Name: "maxsat.VP_C16_maxsat", Kind: "E", Race: true, Bounds: "two goroutines, MaxSAT constraint API and WCNF with result channel (internal goroutine)", Require: []string{"two-uses"}},
			{Name: "bf.VP_C16_bf", Kind: "E", Race: true, Bounds: "two goroutines calling bf.Solve (including an exactly-one group with auxiliary variables)", Require: []string{"two-uses"}},
		},
		Thorough: []HarnessRun{
			{Name: "solver.VP_C16_two_solvers", Kind: "E", Race: true, Params: map[string]int{"kinds": 4, "preempt": 2}, Bounds: "two independent solver uses of 4 kinds, <=2 preemptive switches", Require: []string{}},
		},
		Assumptions: []string{"the Go memory model is DRF-SC: monitoring sequentially consistent interleavings for happens-before races is sufficient to find data races; with no race and no shared cell, interleavings at non-synchronisation points cannot change results", "Verbose is off (the property excludes it)"},
		Outside:     "more than two concurrent users; inputs other than the listed concrete scenarios (the scenario list is a stated sample; schedules within it are explored exhaustively up to the preemption bound)",
	},
	"C19": {
		ID: "C19",
		Quick: []HarnessRun{
			{Name: "main.VP_C19_cli_cnf", Kind: "E", Params: map[string]int{"n": 2, "m": 2, "k": 2}, Bounds: "main.main interpreted with stubbed os/flag on .cnf files with <=2 clauses x <=2 literals over 2 variables x flags {none, -count, -certified, -mus, -cp, -verbose}; stdout judged by the competition conventions, certificates by an independent RUP procedure, MUS output by brute force", Require: []string{"sat", "unsat", "count", "certified", "mus-sat", "mus-unsat"}},
			{Name: "main.VP_C19_cli_opb", Kind: "E", Params: map[string]int{"n": 2, "W": 2, "nc": 1}, Bounds: ".opb files: one constraint on <=2 variables with coefficients in [1,2], optional objective, flags {none, -cp, -count}", Require: []string{"optimum", "unsat", "count"}},
			{Name: "main.VP_C19_cli_opb", Kind: "E", Params: map[string]int{"n": 2, "W": 1, "nc": 2}, Bounds: ".opb files: <=2 constraints with unit coefficients (repeated and contradictory unit constraints included)", Require: []string{"optimum", "unsat", "count"}},
			{Name: "main.VP_C19_cli_opb_skeleton", Kind: "E", Params: map[string]int{"maxsigns": 10}, Bounds: "2 .opb skeletons over 4-5 variables (weighted constraints, objective with mixed signs, a unit constraint fixing an objective literal: several o lines before the optimum), 10 symbolic signs, with and without -cp", Require: []string{"optimum"}},
			{Name: "main.VP_C19_cli_misc", Kind: "E", Bounds: ".wcnf files (<=2 clauses), six .bf texts, unknown suffix, missing file, malformed file", Require: []string{"wcnf", "bf", "unknown", "missing", "malformed"}},
		},
		Thorough: []HarnessRun{
			{Name: "main.VP_C19_cli_cnf", Kind: "E", Params: map[string]int{"n": 2, "m": 3, "k": 2}, Bounds: ".cnf files with <=3 clauses over 2 variables x 6 flags", Require: []string{}},
			{Name: "main.VP_C19_cli_opb_skeleton", Kind: "E", Params: map[string]int{"maxsigns": 12}, Bounds: "the .opb skeletons with 12 symbolic signs", Require: []string{"optimum"}},
		},
		Assumptions: []string{"os.Args, flag.BoolVar/Parse/Args/PrintDefaults, os.Open on a virtual file table, (*os.File).Close and os.Exit are modelled by the engine; counterexamples and sampled paths are re-run on the real executable built from /repo"},
		Outside:     "combinations of several flags; OS-level failures other than a missing file; files larger than the bounds",
	},
	"C20": {
		ID: "C20",
		Quick: []HarnessRun{
			{Name: "solver.VP_C20_stream_optimal", Kind: "E", Params: map[string]int{"nskel": 1, "maxsigns": 0, "maxcap": 2, "preempt": 2}, Bounds: "Optimal with a result channel on a 5-variable instance that yields three improving results, symbolic cost weights in [1,2]; consumer goroutine collecting all results; channel capacity 0..2; every schedule with <=2 preemptions at go/channel operations", Require: []string{"sat", "three-results"}},
			{Name: "solver.VP_C20_stream_optimal", Kind: "E", Params: map[string]int{"nskel": 3, "maxsigns": 3, "maxcap": 1, "preempt": 1}, Bounds: "three skeletons with the first 3 signs symbolic (satisfiable and unsatisfiable), capacity 0..1, <=1 preemption", Require: []string{"sat"}},
			{Name: "solver.VP_C20_stream_enumerate", Kind: "E", Params: map[string]int{"n": 2, "m": 1, "k": 2, "maxcap": 2, "preempt": 2}, Bounds: "Enumerate with a model channel on CNF n=2, <=1 clause; capacity 0..2", Require: []string{"enumerated"}},
			{Name: "maxsat.VP_C20_stream_maxsat", Kind: "E", Params: map[string]int{"n": 2, "m": 2, "k": 2, "W": 2, "maxcap": 1, "preempt": 1}, Bounds: "maxsat Solver.Optimal with result channel (relay goroutine inside) on WCNF with <=2 clauses; capacity 0..1; <=1 preemption", Require: []string{"stream"}},
		},
		Thorough: []HarnessRun{
			{Name: "solver.VP_C20_stream_optimal", Kind: "E", Params: map[string]int{"nskel": 1, "maxsigns": 2, "maxcap": 2, "preempt": 2}, Bounds: "the 3-result instance with 2 symbolic signs, capacity 0..2, <=2 preemptions", Require: []string{}},
		},
		Assumptions: []string{"consumer delays are exactly the schedules in which the consumer is not chosen; the consumer keeps every result and validates them after the stream ends"},
		Outside:     "the stop channel; streams longer than a handful of results; more than one consumer",
	},
}
