package main

import (
	"crypto/sha1"
	"encoding/json"
	"flag"
	"fmt"
	"os"
	"path/filepath"
	"sort"
	"strconv"
	"strings"
	"time"

	symgo "vp/symgo"
)

type HarnessRun struct {
	Name     string         // pkg.Func relative to the module ("solver.VP_x")
	Params   map[string]int // harness parameters (bounds)
	Require  []string       // Reach tags that must be seen at least once
	Bounds   string         // human-readable statement of the bound
	Kind     string         // "E" end-to-end | "L" lemma
	MaxPaths int
	Fuel     int
	Race     bool // native replay under -race
	NoSample bool // skip native cross-validation of sampled paths
}

type PropSpec struct {
	ID          string
	Quick       []HarnessRun
	Thorough    []HarnessRun
	Assumptions []string
	Outside     string
}

type KnownFinding struct {
	Property string `json:"property"`
	ID       string `json:"id"`
	Status   string `json:"status"` // open | fixed
	Harness  string `json:"harness,omitempty"`
	What     string `json:"what"`
	Scope    string `json:"scope,omitempty"`
	Commit   string `json:"commit,omitempty"`
	Line     string `json:"line,omitempty"`
}

func loadKnownFindings() []KnownFinding {
	var kf struct {
		Findings []KnownFinding `json:"findings"`
	}
	data, err := os.ReadFile(filepath.Join(verifDir(), "known_findings.json"))
	if err != nil {
		return nil
	}
	json.Unmarshal(data, &kf)
	return kf.Findings
}

func qualify(name string) string {
	if strings.Contains(name, "/") {
		return name
	}
	if strings.HasPrefix(name, "main.") {
		return symgo.TargetPrefix + "." + strings.TrimPrefix(name, "main.")
	}
	return symgo.TargetPrefix + "/" + name
}

type harnessEvidence struct {
	Harness     string         `json:"harness"`
	Kind        string         `json:"kind"`
	Params      map[string]int `json:"params"`
	Bounds      string         `json:"bounds"`
	Paths       int            `json:"paths"`
	Outcomes    map[string]int `json:"paths_by_outcome"`
	Decisions   int            `json:"decisions"`
	Forced      int            `json:"forced_decisions"`
	Queries     int            `json:"solver_queries"`
	Unknowns    int            `json:"solver_unknown"`
	SolverS     float64        `json:"solver_time_s"`
	InterpS     float64        `json:"interp_time_s"`
	WallS       float64        `json:"wall_s"`
	Asserts     int            `json:"assertions_reached_with_model"`
	AssertsSym  int            `json:"assertion_queries_discharged"`
	CrossChecks int            `json:"cross_solver_checks"`
	Tags        map[string]int `json:"reach_tags"`
	MaxInstrs   int            `json:"max_ssa_instructions_on_a_path"`
	Funcs       int            `json:"functions_entered"`
	Exhaustive  bool           `json:"all_paths_explored"`
}

func cmdRun(args []string) int {
	fs := flag.NewFlagSet("run", flag.ExitOnError)
	prop := fs.String("prop", "", "property id")
	tier := fs.String("tier", "", "quick|thorough")
	only := fs.String("only", "", "run only harnesses whose name contains this")
	noNative := fs.Bool("no-native", false, "skip native replay / validation (debugging only; never in registered commands)")
	fs.Parse(args)
	if *tier == "" {
		*tier = os.Getenv("VERIF_TIER")
	}
	if *tier == "" {
		*tier = "quick"
	}
	seed := 0
	if s := os.Getenv("VERIF_SEED"); s != "" {
		seed, _ = strconv.Atoi(s)
	}
	spec, ok := props[*prop]
	if !ok {
		fmt.Fprintf(os.Stderr, "unknown property %q\n", *prop)
		return 2
	}
	runs := spec.Quick
	if *tier == "thorough" {
		// thorough = every quick run plus the deeper runs, so that the thorough
		// tier never covers less than the quick tier
		runs = nil
		seen := map[string]bool{}
		for _, r := range append(append([]HarnessRun{}, spec.Quick...), spec.Thorough...) {
			key := fmt.Sprint(r.Name, r.Params, r.Fuel, r.Race)
			if !seen[key] {
				seen[key] = true
				runs = append(runs, r)
			}
		}
	}
	t0 := time.Now()
	P, err := loadProgram()
	if err != nil {
		// The tree no longer loads: nothing can be decided.
		fmt.Printf("INCONCLUSIVE property=%s cannot load /repo: %v\n", spec.ID, err)
		return 2
	}
	allHarness := P.HarnessNames()
	kfs := loadKnownFindings()

	var hev []harnessEvidence
	var samples []interface{}
	funcs := map[string]int{}
	exit := 0
	violations := 0
	totalPaths, totalDec, validated, nontrivial := 0, 0, 0, 0
	var cands []Witness
	candRace := map[int]bool{}
	inconclusive := []string{}

	quickSet := map[string]bool{}
	for _, r := range spec.Quick {
		quickSet[fmt.Sprint(r.Name, r.Params, r.Fuel, r.Race)] = true
	}
	var sampleW []Witness
	for _, hr := range runs {
		if *only != "" && !strings.Contains(hr.Name, *only) {
			continue
		}
		// cross-check: every assertion query is re-decided by z3 4.8.12; in the thorough
		// tier the wide-range arithmetic lemmas (where the solver's reasoning carries the
		// claim over ranges no enumeration reaches) are also re-decided by cvc5
		cross := []symgo.SolverKind{symgo.SolverZ3}
		wideLemma := false
		for _, n := range []string{"lit_arith", "pb_norm", "cp_clash", "cp_round"} {
			wideLemma = wideLemma || strings.Contains(hr.Name, n)
		}
		if *tier == "thorough" && wideLemma {
			cross = []symgo.SolverKind{symgo.SolverZ3, symgo.SolverCVC5}
		}
		if os.Getenv("VP_PASS") == "extras" && quickSet[fmt.Sprint(hr.Name, hr.Params, hr.Fuel, hr.Race)] && !wideLemma {
			continue // development pass: only what the quick tier has not already run in this configuration
		}
		wall := 20 * time.Minute // per-harness wall budget: a run that exceeds it is reported as truncated (exit 2), never as held
		if s := os.Getenv("VP_HARNESS_WALL_MIN"); s != "" {
			if m, err := strconv.Atoi(s); err == nil && m > 0 {
				wall = time.Duration(m) * time.Minute
			}
		}
		cfg := symgo.Config{Harness: qualify(hr.Name), Params: withSeed(hr.Params, seed), Workers: 16, MaxPaths: hr.MaxPaths, Fuel: hr.Fuel, Deadline: time.Now().Add(wall),
			CrossCheck: cross, KeepSamples: 6, TimeoutMs: map[bool]int{false: 30000, true: 120000}[*tier == "thorough"]}
		rep, err := symgo.Explore(P, cfg)
		if err != nil {
			fmt.Printf("INCONCLUSIVE property=%s harness=%s: %v\n", spec.ID, hr.Name, err)
			return 2
		}
		st := rep.Stats
		he := harnessEvidence{Harness: hr.Name, Kind: hr.Kind, Params: hr.Params, Bounds: hr.Bounds, Paths: st.Paths, Outcomes: st.ByOutcome,
			Decisions: st.Decisions, Forced: st.Forced, Queries: st.Queries, Unknowns: st.Unknowns, SolverS: st.SolverTime.Seconds(),
			InterpS: st.InterpTime.Seconds(), WallS: st.Wall.Seconds(), Asserts: st.Asserts, AssertsSym: st.AssertsSym, CrossChecks: st.CrossChecks,
			Tags: st.Tags, MaxInstrs: st.MaxInstrs, Funcs: len(st.Funcs), Exhaustive: rep.Completed}
		hev = append(hev, he)
		for f, n := range st.Funcs {
			funcs[f] += n
		}
		totalPaths += st.Paths
		totalDec += st.Decisions
		nontrivial += st.ByOutcome["ok"]
		fmt.Printf("harness %-40s paths=%d outcomes=%v queries=%d solver=%.1fs wall=%.1fs tags=%v\n", hr.Name, st.Paths, st.ByOutcome, st.Queries, st.SolverTime.Seconds(), st.Wall.Seconds(), st.Tags)
		// vacuity
		if st.Asserts == 0 && rep.Completed {
			inconclusive = append(inconclusive, fmt.Sprintf("VACUOUS harness=%s: no assertion reached", hr.Name))
		}
		for _, tag := range hr.Require {
			if st.Tags[tag] == 0 && rep.Completed { // a run cut short by violations cannot be blamed for what it did not reach
				inconclusive = append(inconclusive, fmt.Sprintf("VACUOUS harness=%s: required tag %q never reached", hr.Name, tag))
			}
		}
		if !rep.Completed && len(rep.Results) == 0 {
			inconclusive = append(inconclusive, fmt.Sprintf("harness=%s: exploration truncated (path or wall-clock budget) without a finding: the stated bound was not exhausted", hr.Name))
		}
		for _, r := range rep.Results {
			switch r.Outcome {
			case symgo.OutInconclusive, symgo.OutEngineError:
				inconclusive = append(inconclusive, fmt.Sprintf("harness=%s: %s: %s", hr.Name, r.Outcome, firstLine(r.Msg)))
				if r.Stack != "" && os.Getenv("VP_DEBUG") != "" {
					fmt.Println(r.Msg)
					fmt.Println(r.Stack)
				}
			default:
				w := Witness{Property: spec.ID, Harness: cfg.Harness, Params: cfg.Params, Vars: r.Witness, Choices: r.HChoices, Outcome: r.Outcome.String(), Msg: r.Msg, Obs: r.Obs, Output: tailStr(r.Output, 2000)}
				if hr.Race {
					candRace[len(cands)] = true
				}
				cands = append(cands, w)
			}
		}
		if !hr.NoSample {
			for _, r := range rep.Samples {
				sampleW = append(sampleW, Witness{Harness: cfg.Harness, Params: cfg.Params, Vars: r.Witness, Choices: r.HChoices, Outcome: "ok", Obs: r.Obs})
			}
		}
		for i, r := range rep.Samples {
			if i < 2 {
				samples = append(samples, map[string]interface{}{"harness": hr.Name, "inputs": r.Witness, "choices": r.HChoices, "decisions": r.Decisions, "tags": r.Tags, "observed": r.Obs})
			}
		}
	}

	// known findings: re-run each open finding's concrete witness harness
	for _, kf := range kfs {
		if kf.Property != spec.ID || kf.Status != "open" || kf.Harness == "" {
			continue
		}
		rep, err := symgo.Explore(P, symgo.Config{Harness: qualify(kf.Harness), Workers: 4})
		if err != nil {
			inconclusive = append(inconclusive, fmt.Sprintf("known finding %s: %v", kf.ID, err))
			continue
		}
		still := false
		for _, r := range rep.Results {
			switch r.Outcome {
			case symgo.OutViolation, symgo.OutPanic, symgo.OutFuel, symgo.OutDeadlock, symgo.OutRace:
				still = true
			case symgo.OutInconclusive, symgo.OutEngineError:
				inconclusive = append(inconclusive, fmt.Sprintf("known finding %s: %s %s", kf.ID, r.Outcome, firstLine(r.Msg)))
			}
		}
		if still {
			fmt.Printf("KNOWN-FINDING: property=%s %s: %s\n", spec.ID, kf.ID, kf.What)
		}
	}

	// native replay of candidate violations
	if len(cands) > 0 {
		// dedupe by (harness,msg), keep at most 3 per class
		perClass := map[string]int{}
		var keep []Witness
		var keepRace []bool
		for i, c := range cands {
			key := c.Harness + "|" + c.Outcome + "|" + c.Msg
			if perClass[key] >= 2 {
				continue
			}
			perClass[key]++
			keep = append(keep, c)
			keepRace = append(keepRace, candRace[i])
		}
		byPkg := map[string][]int{}
		for i, c := range keep {
			k := pkgOfHarness(c.Harness)
			if keepRace[i] {
				k += "|race"
			}
			byPkg[k] = append(byPkg[k], i)
		}
		for k, idxs := range byPkg {
			pkg := strings.TrimSuffix(k, "|race")
			race := strings.HasSuffix(k, "|race")
			for _, i := range idxs {
				c := keep[i]
				var nr NativeResult
				if *noNative {
					nr = NativeResult{Status: "skipped"}
				} else {
					res, out, err := nativeRun(pkg, []Witness{c}, allHarness, race, 30)
					if err != nil || len(res) == 0 {
						inconclusive = append(inconclusive, fmt.Sprintf("native replay failed to run: %v", err))
						continue
					}
					nr = res[0]
					if nr.Status == "missing" || nr.Status == "error" {
						fmt.Println(tailStr(out, 1500))
					}
				}
				if confirms(c.Outcome, nr, pkg) || *noNative {
					path := saveReplay(spec.ID, c)
					fmt.Printf("  %s: %s  inputs=%v choices=%v  [native: %s %s]\n", c.Outcome, c.Msg, c.Vars, c.Choices, nr.Status, nr.Msg)
					fmt.Printf("VIOLATION property=%s replay=%s\n", spec.ID, path)
					violations++
					exit = 1
				} else {
					inconclusive = append(inconclusive, fmt.Sprintf("UNCONFIRMED counterexample harness=%s engine=%s(%s) native=%s(%s) inputs=%v choices=%v", c.Harness, c.Outcome, c.Msg, nr.Status, nr.Msg, c.Vars, c.Choices))
				}
			}
		}
	}

	// cross-validation of sampled ok paths against the compiled code
	if len(sampleW) > 0 && !*noNative && exit == 0 {
		byPkg := map[string][]Witness{}
		for _, w := range sampleW {
			byPkg[pkgOfHarness(w.Harness)] = append(byPkg[pkgOfHarness(w.Harness)], w)
		}
		for pkg, ws := range byPkg {
			res, out, err := nativeRun(pkg, ws, allHarness, false, 30)
			if err != nil {
				inconclusive = append(inconclusive, fmt.Sprintf("native validation failed to run: %v", err))
				continue
			}
			for i, nr := range res {
				if nr.Status != "ok" {
					inconclusive = append(inconclusive, fmt.Sprintf("TRANSLATION-MISMATCH harness=%s: engine path ok, native %s(%s) inputs=%v choices=%v", ws[i].Harness, nr.Status, nr.Msg, ws[i].Vars, ws[i].Choices))
					if nr.Status == "missing" {
						fmt.Println(tailStr(out, 1500))
					}
					continue
				}
				mismatch := false
				for k, v := range ws[i].Obs {
					if nv, ok := nr.Obs[k]; !ok || nv != v {
						inconclusive = append(inconclusive, fmt.Sprintf("TRANSLATION-MISMATCH harness=%s observable %s: engine %q native %q inputs=%v", ws[i].Harness, k, v, nv, ws[i].Vars))
						mismatch = true
					}
				}
				if !mismatch {
					validated++
				}
			}
		}
	}

	for _, m := range inconclusive {
		fmt.Printf("INCONCLUSIVE property=%s %s\n", spec.ID, m)
	}
	if len(inconclusive) > 0 && exit == 0 {
		exit = 2
	}

	// evidence
	var fnames []string
	for f := range funcs {
		if strings.Contains(f, "gophersat") && !strings.Contains(f, "zzvp") && !strings.Contains(f, "VP_") && !strings.Contains(f, ".vp") {
			fnames = append(fnames, f)
		}
	}
	sort.Strings(fnames)
	if len(samples) == 0 {
		samples = append(samples, "no completed path")
	}
	ev := map[string]interface{}{
		"property_id": spec.ID,
		"tier":        *tier,
		"seed":        seed,
		"level":       "model_checking",
		"coverage": map[string]interface{}{
			"states":                        max1(totalPaths),
			"transitions":                   max1(totalDec),
			"traces_validated_against_impl": validated,
			"samples":                       samples,
			"evaluations":                   max1(totalPaths),
			"distinct_nontrivial":           nontrivial,
			"rule":                          "one case = one explored execution path of a harness (a distinct decision vector: symbolic branch outcomes, concretised index values, harness shape choices); each path stands for all inputs satisfying its path condition; counted as non-trivial when it ran to completion with every assertion discharged",
			"exhaustive":                    len(inconclusive) == 0,
			"technique":                     "bounded symbolic execution of go/ssa (symgo) with z3 5.1 deciding every symbolic branch and assertion; z3 4.8.12" + map[bool]string{true: " and cvc5 1.0", false: ""}[*tier == "thorough"] + " cross-check assertion queries",
			"harnesses":                     hev,
			"functions_encoded":             fnames,
			"load_s":                        P.LoadSeconds,
			"outside_the_bound":             spec.Outside,
			"inconclusive":                  inconclusive,
		},
		"assumptions": append([]string{
			"semantics of the source = go/packages + go/ssa (x/tools v0.29.0) as interpreted by symgo; heap, pointers, slice headers, maps, floats and strings are concrete, integer and boolean scalars may be symbolic bit-vector terms",
			"standard-library calls (fmt, strings, strconv, bufio, text/scanner, time.Ticker, os, flag) are bridged natively or modelled; see DESIGN.md §2.4",
			"a reported counterexample is replayed against the natively compiled code before it is printed; sampled completed paths are re-run natively and their observables compared (traces_validated_against_impl)",
		}, spec.Assumptions...),
		"wall_s":     time.Since(t0).Seconds(),
		"violations": violations,
	}
	os.MkdirAll(filepath.Join(verifDir(), "evidence"), 0755)
	data, _ := json.MarshalIndent(ev, "", " ")
	os.WriteFile(filepath.Join(verifDir(), "evidence", spec.ID+".json"), data, 0644)
	fmt.Printf("property %s tier %s: paths=%d validated=%d violations=%d inconclusive=%d wall=%.1fs exit=%d\n", spec.ID, *tier, totalPaths, validated, violations, len(inconclusive), time.Since(t0).Seconds(), exit)
	return exit
}

func max1(n int) int {
	if n < 1 {
		return 1
	}
	return n
}

func withSeed(p map[string]int, seed int) map[string]int {
	m := map[string]int{}
	for k, v := range p {
		m[k] = v
	}
	m["seed"] = seed
	return m
}

func firstLine(s string) string {
	if i := strings.Index(s, "\n"); i >= 0 {
		return s[:i]
	}
	return s
}

func saveReplay(prop string, w Witness) string {
	data, _ := json.MarshalIndent(w, "", " ")
	h := sha1.Sum(data)
	dir := filepath.Join(verifDir(), "replays", prop)
	os.MkdirAll(dir, 0755)
	path := filepath.Join(dir, fmt.Sprintf("%x.json", h[:6]))
	os.WriteFile(path, data, 0644)
	return path
}

func cmdReplay(args []string) int {
	if len(args) < 1 {
		fmt.Fprintln(os.Stderr, "usage: vpcheck replay <witness.json>")
		return 2
	}
	data, err := os.ReadFile(args[0])
	if err != nil {
		fmt.Fprintln(os.Stderr, err)
		return 2
	}
	var w Witness
	if err := json.Unmarshal(data, &w); err != nil {
		fmt.Fprintln(os.Stderr, err)
		return 2
	}
	P, err := loadProgram()
	if err != nil {
		fmt.Fprintln(os.Stderr, err)
		return 2
	}
	res, out, err := nativeRun(pkgOfHarness(w.Harness), []Witness{w}, P.HarnessNames(), w.Outcome == "race", 60)
	if err != nil {
		fmt.Fprintln(os.Stderr, err)
		return 2
	}
	fmt.Printf("engine: %s (%s)\nnative: %s (%s)\n", w.Outcome, w.Msg, res[0].Status, res[0].Msg)
	if os.Getenv("VP_DEBUG") != "" {
		fmt.Println(out)
	}
	if confirms(w.Outcome, res[0], pkgOfHarness(w.Harness)) {
		fmt.Printf("VIOLATION property=%s replay=%s\n", w.Property, args[0])
		return 1
	}
	return 0
}
