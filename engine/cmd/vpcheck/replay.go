package main

// Native replay: the harness is compiled with the real toolchain against
// /repo's working tree (go test -overlay) and run on concrete witnesses.

import (
	"bytes"
	"encoding/json"
	"fmt"
	"os"
	"os/exec"
	"path/filepath"
	"sort"
	"strconv"
	"strings"
	"time"
)

type Witness struct {
	Property string            `json:"property,omitempty"`
	Harness  string            `json:"harness"` // fully qualified
	Params   map[string]int    `json:"params"`
	Vars     map[string]int64  `json:"vars"`
	Choices  []int             `json:"choices"`
	Outcome  string            `json:"outcome,omitempty"`
	Msg      string            `json:"msg,omitempty"`
	Obs      map[string]string `json:"obs,omitempty"`
	Output   string            `json:"engine_output,omitempty"`
}

type NativeResult struct {
	Status string // ok | assert | panic | assume | timeout | error
	Msg    string
	Obs    map[string]string
}

const replayTestTmpl = `package %s

import (
	"encoding/json"
	"fmt"
	"os"
	"testing"
	"time"

	"github.com/crillab/gophersat/zzvp"
)

var vpHarnesses = map[string]func(){
%s}

func TestVPReplay(t *testing.T) {
	data, err := os.ReadFile(os.Getenv("VP_WITNESSES"))
	if err != nil {
		t.Fatal(err)
	}
	var items []json.RawMessage
	if err := json.Unmarshal(data, &items); err != nil {
		t.Fatal(err)
	}
	for i, raw := range items {
		var hdr struct {
			Harness string
		}
		json.Unmarshal(raw, &hdr)
		f := vpHarnesses[hdr.Harness]
		if f == nil {
			fmt.Printf("VPRESULT %%d error %%q {}\n", i, "unknown harness "+hdr.Harness)
			continue
		}
		if err := zzvp.SetWitness(raw); err != nil {
			t.Fatal(err)
		}
		status, msg := "ok", ""
		done := make(chan struct{})
		go func() {
			defer close(done)
			defer func() {
				switch r := recover().(type) {
				case nil:
				case zzvp.AssertFailed:
					status, msg = "assert", r.Msg
				case zzvp.AssumeFailed:
					status, msg = "assume", r.Msg
				default:
					status, msg = "panic", fmt.Sprint(r)
				}
			}()
			f()
		}()
		select {
		case <-done:
		case <-time.After(%d * time.Second):
			status, msg = "timeout", "harness did not finish"
		}
		obs, _ := json.Marshal(zzvp.Observed)
		fmt.Printf("VPRESULT %%d %%s %%q %%s\n", i, status, msg, obs)
		if status == "timeout" {
			break
		}
	}
}
`

// nativeRun executes the witnesses (all of one package) natively.
func nativeRun(pkgPath string, ws []Witness, harnessNames []string, race bool, timeoutSec int) ([]NativeResult, string, error) {
	tmp, err := os.MkdirTemp("", "vpreplay")
	if err != nil {
		return nil, "", err
	}
	defer os.RemoveAll(tmp)
	rel := strings.TrimPrefix(strings.TrimPrefix(pkgPath, "github.com/crillab/gophersat"), "/")
	pkgDir := filepath.Join(repoDir, rel)
	pkgName := filepath.Base(pkgDir)
	if rel == "" {
		pkgName = "main"
	}
	// overlay
	ov := map[string]string{}
	hdir := filepath.Join(verifDir(), "engine", "harness")
	ents, _ := os.ReadDir(hdir)
	for _, e := range ents {
		if !e.IsDir() || e.Name() == "zzvp_sym" {
			continue
		}
		var dst string
		switch e.Name() {
		case "zzvp":
			dst = filepath.Join(repoDir, "zzvp")
		case "main":
			dst = repoDir
		default:
			dst = filepath.Join(repoDir, e.Name())
		}
		files, _ := os.ReadDir(filepath.Join(hdir, e.Name()))
		for _, f := range files {
			if strings.HasSuffix(f.Name(), ".go") {
				ov[filepath.Join(dst, "zz_vp_"+f.Name())] = filepath.Join(hdir, e.Name(), f.Name())
			}
		}
	}
	if err := instrumentOverlay(rel, tmp, ov); err != nil {
		return nil, "", fmt.Errorf("instrumentation failed: %v", err)
	}
	var reg strings.Builder
	sort.Strings(harnessNames)
	for _, h := range harnessNames {
		if strings.HasPrefix(h, pkgPath+".") {
			n := strings.TrimPrefix(h, pkgPath+".")
			fmt.Fprintf(&reg, "\t%q: %s,\n", h, n)
		}
	}
	testSrc := fmt.Sprintf(replayTestTmpl, pkgName, reg.String(), timeoutSec)
	testFile := filepath.Join(tmp, "replay_test.go")
	os.WriteFile(testFile, []byte(testSrc), 0644)
	ov[filepath.Join(pkgDir, "zz_vp_replay_test.go")] = testFile
	ovJSON, _ := json.Marshal(map[string]interface{}{"Replace": ov})
	ovFile := filepath.Join(tmp, "overlay.json")
	os.WriteFile(ovFile, ovJSON, 0644)
	wdata, _ := json.Marshal(ws)
	wfile := filepath.Join(tmp, "witnesses.json")
	os.WriteFile(wfile, wdata, 0644)
	args := []string{"test", "-vet=off", "-count=1", "-overlay", ovFile, "-run", "^TestVPReplay$", "-timeout", strconv.Itoa(timeoutSec*len(ws)+120) + "s"}
	if race {
		args = append(args, "-race")
	}
	target := "./" + rel
	if rel == "" {
		target = "."
	}
	args = append(args, "-v", target)
	cmd := exec.Command("go", args...)
	cmd.Dir = repoDir
	cmd.Env = append(os.Environ(), "GOFLAGS=-mod=mod", "GOPROXY=off", "GOSUMDB=off", "GOTOOLCHAIN=local", "VP_WITNESSES="+wfile)
	if rel == "" {
		// harnesses of package main judge the output of the real executable: build it (no overlay)
		bin := filepath.Join(tmp, "gophersat")
		b := exec.Command("go", "build", "-o", bin, ".")
		b.Dir = repoDir
		b.Env = cmd.Env
		if out, err := b.CombinedOutput(); err != nil {
			return nil, string(out), fmt.Errorf("cannot build the executable: %v", err)
		}
		cmd.Env = append(cmd.Env, "VP_GOPHERSAT_BIN="+bin)
	}
	var out bytes.Buffer
	cmd.Stdout = &out
	cmd.Stderr = &out
	t0 := time.Now()
	runErr := cmd.Run()
	_ = t0
	res := make([]NativeResult, len(ws))
	for i := range res {
		res[i].Status = "missing"
	}
	for _, line := range strings.Split(out.String(), "\n") {
		if !strings.HasPrefix(line, "VPRESULT ") {
			continue
		}
		f := strings.SplitN(line, " ", 4)
		if len(f) < 4 {
			continue
		}
		idx, _ := strconv.Atoi(f[1])
		if idx < 0 || idx >= len(res) {
			continue
		}
		res[idx].Status = f[2]
		rest := f[3]
		// quoted message then obs json
		if msg, tail, ok := cutQuoted(rest); ok {
			res[idx].Msg = msg
			json.Unmarshal([]byte(strings.TrimSpace(tail)), &res[idx].Obs)
		}
	}
	// a process-level crash (fatal error: all goroutines are asleep, data race
	// exit, os.Exit) shows up as missing results
	if runErr != nil {
		for i := range res {
			if res[i].Status == "missing" {
				o := out.String()
				switch {
				case strings.Contains(o, "all goroutines are asleep"):
					res[i] = NativeResult{Status: "deadlock", Msg: "fatal error: all goroutines are asleep - deadlock!"}
				case strings.Contains(o, "WARNING: DATA RACE"):
					res[i] = NativeResult{Status: "race", Msg: "race detector report"}
				case strings.Contains(o, "panic: "):
					res[i] = NativeResult{Status: "panic", Msg: firstLineWith(o, "panic: ")}
				default:
					res[i] = NativeResult{Status: "error", Msg: tailStr(o, 400)}
				}
				break
			}
		}
	}
	if strings.Contains(out.String(), "WARNING: DATA RACE") {
		for i := range res {
			if res[i].Status == "ok" {
				res[i] = NativeResult{Status: "race", Msg: "race detector report", Obs: res[i].Obs}
			}
		}
	}
	return res, out.String(), nil
}

func firstLineWith(s, sub string) string {
	for _, l := range strings.Split(s, "\n") {
		if strings.Contains(l, sub) {
			return l
		}
	}
	return ""
}

func tailStr(s string, n int) string {
	if len(s) > n {
		return s[len(s)-n:]
	}
	return s
}

func cutQuoted(s string) (string, string, bool) {
	if len(s) == 0 || s[0] != '"' {
		return "", s, false
	}
	for i := 1; i < len(s); i++ {
		if s[i] == '\\' {
			i++
			continue
		}
		if s[i] == '"' {
			u, err := strconv.Unquote(s[:i+1])
			if err != nil {
				return "", s, false
			}
			return u, s[i+1:], true
		}
	}
	return "", s, false
}

func pkgOfHarness(h string) string {
	i := strings.LastIndex(h, ".")
	return h[:i]
}

// confirms reports whether the native result reproduces the engine outcome.
func confirms(engineOutcome string, nr NativeResult, pkg string) bool {
	switch engineOutcome {
	case "violation":
		return nr.Status == "assert"
	case "panic":
		if (pkg == "main" || pkg == "github.com/crillab/gophersat") && nr.Status == "assert" {
			// the command is replayed as a separate process: a panic in it reaches the
			// harness as a non-zero exit status, which its assertions reject
			return true
		}
		return nr.Status == "panic"
	case "fuel":
		return nr.Status == "timeout"
	case "deadlock":
		return nr.Status == "deadlock" || nr.Status == "timeout"
	case "race":
		return nr.Status == "race"
	}
	return false
}
