package main

// Native counterpart of zzvp.Observe / ObserveReturn: for a replay, the
// observed functions of /repo are wrapped (in a scratch copy of their source
// file, substituted through the overlay) so that the harness callbacks run at
// their entry and return.

import (
	"bytes"
	"fmt"
	"go/ast"
	"go/parser"
	"go/printer"
	"go/token"
	"os"
	"path/filepath"
	"strings"
)

// observed lists, per package directory (relative to the module), the source
// files and functions that harnesses observe.
var observed = map[string]map[string][]string{
	"solver": {
		"learn.go":    {"learnClause"},
		"learn_pb.go": {"cuttingPlanes", "divideBy"},
	},
}

func exprString(fset *token.FileSet, e ast.Expr) string {
	var b bytes.Buffer
	printer.Fprint(&b, fset, e)
	return b.String()
}

// instrumentFile returns the source of path with wrappers around the named functions.
func instrumentFile(path, pkgPath string, funcs []string) ([]byte, error) {
	fset := token.NewFileSet()
	f, err := parser.ParseFile(fset, path, nil, parser.ParseComments)
	if err != nil {
		return nil, err
	}
	want := map[string]bool{}
	for _, n := range funcs {
		want[n] = true
	}
	var wrappers strings.Builder
	for _, d := range f.Decls {
		fd, ok := d.(*ast.FuncDecl)
		if !ok || !want[fd.Name.Name] || fd.Body == nil {
			continue
		}
		name := fd.Name.Name
		qual := pkgPath + "." + name
		recvName, recvDecl := "", ""
		if fd.Recv != nil && len(fd.Recv.List) == 1 {
			r := fd.Recv.List[0]
			recvName = "vpRecv"
			if len(r.Names) == 1 && r.Names[0].Name != "_" {
				recvName = r.Names[0].Name
			}
			rt := exprString(fset, r.Type)
			recvDecl = fmt.Sprintf("(%s %s) ", recvName, rt)
			if strings.HasPrefix(rt, "*") {
				qual = "(*" + pkgPath + "." + rt[1:] + ")." + name
			} else {
				qual = "(" + pkgPath + "." + rt + ")." + name
			}
		}
		var params, args []string
		k := 0
		for _, p := range fd.Type.Params.List {
			t := exprString(fset, p.Type)
			names := p.Names
			if len(names) == 0 {
				names = []*ast.Ident{ast.NewIdent(fmt.Sprintf("vpA%d", k))}
			}
			for _, n := range names {
				nm := n.Name
				if nm == "_" {
					nm = fmt.Sprintf("vpA%d", k)
				}
				k++
				params = append(params, nm+" "+t)
				if strings.HasPrefix(t, "...") {
					args = append(args, nm+"...")
				} else {
					args = append(args, nm)
				}
			}
		}
		var results, rnames []string
		if fd.Type.Results != nil {
			j := 0
			for _, r := range fd.Type.Results.List {
				t := exprString(fset, r.Type)
				n := len(r.Names)
				if n == 0 {
					n = 1
				}
				for i := 0; i < n; i++ {
					results = append(results, t)
					rnames = append(rnames, fmt.Sprintf("vpR%d", j))
					j++
				}
			}
		}
		obsArgs := args
		if recvName != "" {
			obsArgs = append([]string{recvName}, args...)
		}
		callee := name + "__vporig"
		if recvName != "" {
			callee = recvName + "." + callee
		}
		fmt.Fprintf(&wrappers, "\nfunc %s%s(%s)", recvDecl, name, strings.Join(params, ", "))
		if len(results) > 0 {
			fmt.Fprintf(&wrappers, " (%s)", strings.Join(results, ", "))
		}
		fmt.Fprintf(&wrappers, " {\n\tzzvp.CallObservers(\"entry\", %q, %s)\n", qual, strings.Join(obsArgs, ", "))
		if len(results) > 0 {
			fmt.Fprintf(&wrappers, "\t%s := %s(%s)\n", strings.Join(rnames, ", "), callee, strings.Join(args, ", "))
			fmt.Fprintf(&wrappers, "\tzzvp.CallObservers(\"return\", %q, %s)\n", qual, strings.Join(append(append([]string{}, obsArgs...), rnames...), ", "))
			fmt.Fprintf(&wrappers, "\treturn %s\n}\n", strings.Join(rnames, ", "))
		} else {
			fmt.Fprintf(&wrappers, "\t%s(%s)\n", callee, strings.Join(args, ", "))
			fmt.Fprintf(&wrappers, "\tzzvp.CallObservers(\"return\", %q, %s)\n}\n", qual, strings.Join(obsArgs, ", "))
		}
		fd.Name.Name = name + "__vporig"
	}
	var out bytes.Buffer
	if err := printer.Fprint(&out, fset, f); err != nil {
		return nil, err
	}
	src := out.String()
	// add the zzvp import right after the package clause
	idx := strings.Index(src, "\n")
	for !strings.HasPrefix(strings.TrimSpace(src[:idx]), "package ") {
		j := strings.Index(src[idx+1:], "\n")
		if j < 0 {
			break
		}
		if strings.HasPrefix(strings.TrimSpace(src[idx+1:idx+1+j]), "package ") {
			idx = idx + 1 + j
			break
		}
		idx = idx + 1 + j
	}
	src = src[:idx+1] + "\nimport \"github.com/crillab/gophersat/zzvp\"\n" + src[idx+1:] + wrappers.String()
	return []byte(src), nil
}

// instrumentOverlay adds instrumented copies of the observed files of the
// package at rel to the overlay map.
func instrumentOverlay(rel string, tmp string, ov map[string]string) error {
	files := observed[rel]
	for file, funcs := range files {
		real := filepath.Join(repoDir, rel, file)
		pkgPath := "github.com/crillab/gophersat"
		if rel != "" {
			pkgPath += "/" + rel
		}
		src, err := instrumentFile(real, pkgPath, funcs)
		if err != nil {
			return err
		}
		dst := filepath.Join(tmp, "instr_"+strings.ReplaceAll(rel, "/", "_")+"_"+file)
		if err := os.WriteFile(dst, src, 0644); err != nil {
			return err
		}
		ov[real] = dst
	}
	return nil
}
