package interp

// Symbolic terms: a DAG of machine-level operations over bit-vectors and
// Booleans. Width 0 denotes Bool. All integer values are kept as uint64
// masked to the width; signedness is a property of the operation.

import (
	"fmt"
	"strings"
)

type Op uint8

const (
	OConst Op = iota
	OVar
	OAdd
	OSub
	OMul
	OSDiv
	OUDiv
	OSRem
	OURem
	OAnd
	OOr
	OXor
	OShl
	OLShr
	OAShr
	ONeg
	OBNot // bitwise complement
	OEq
	OUlt
	OSlt
	OUle
	OSle
	ONot  // boolean
	OBAnd // boolean and
	OBOr  // boolean or
	OIte
	OZext
	OSext
	OTrunc
)

var opNames = [...]string{"const", "var", "bvadd", "bvsub", "bvmul", "bvsdiv", "bvudiv", "bvsrem", "bvurem",
	"bvand", "bvor", "bvxor", "bvshl", "bvlshr", "bvashr", "bvneg", "bvnot", "=", "bvult", "bvslt", "bvule", "bvsle",
	"not", "and", "or", "ite", "zext", "sext", "trunc"}

type Term struct {
	op   Op
	w    uint8 // 0 = Bool
	a, b *Term
	c    *Term
	val  uint64
	name string
	lo   int64 // declared range for variables (signed interpretation)
	hi   int64
	size int // number of nodes (tree size, capped) for heuristics
	h1   uint64 // structural hashes (query cache keys)
	h2   uint64
}

func mix(h, x uint64) uint64 {
	h ^= x + 0x9e3779b97f4a7c15 + (h << 6) + (h >> 2)
	h *= 0xff51afd7ed558ccd
	h ^= h >> 33
	return h
}

// hashed fills in the structural hashes of a freshly built node.
func hashed(t *Term) *Term {
	a := uint64(t.op)<<8 | uint64(t.w)
	h1 := mix(0x1234567, a)
	h2 := mix(0xabcdef01, a*31+7)
	switch t.op {
	case OConst:
		h1 = mix(h1, t.val)
		h2 = mix(h2, t.val^0x5555)
	case OVar:
		for i := 0; i < len(t.name); i++ {
			h1 = mix(h1, uint64(t.name[i]))
			h2 = mix(h2, uint64(t.name[i])+uint64(i)*131)
		}
	}
	for _, c := range [3]*Term{t.a, t.b, t.c} {
		if c != nil {
			h1 = mix(h1, c.h1)
			h2 = mix(h2, c.h2)
		} else {
			h1 = mix(h1, 0x77)
			h2 = mix(h2, 0x99)
		}
	}
	t.h1, t.h2 = h1, h2
	return t
}

func mask(w uint8) uint64 {
	if w >= 64 {
		return ^uint64(0)
	}
	return (uint64(1) << w) - 1
}

func sext64(v uint64, w uint8) int64 {
	if w >= 64 {
		return int64(v)
	}
	sh := 64 - uint(w)
	return int64(v<<sh) >> sh
}

func mkConst(w uint8, v uint64) *Term {
	if w == 0 {
		if v != 0 {
			return termTrue
		}
		return termFalse
	}
	return hashed(&Term{op: OConst, w: w, val: v & mask(w), size: 1})
}

var termTrue = hashed(&Term{op: OConst, w: 0, val: 1, size: 1})
var termFalse = hashed(&Term{op: OConst, w: 0, val: 0, size: 1})

func mkBool(b bool) *Term {
	if b {
		return termTrue
	}
	return termFalse
}

func (t *Term) isConst() bool { return t.op == OConst }
func (t *Term) isTrue() bool  { return t.op == OConst && t.w == 0 && t.val == 1 }
func (t *Term) isFalse() bool { return t.op == OConst && t.w == 0 && t.val == 0 }

func tsize(ts ...*Term) int {
	n := 1
	for _, t := range ts {
		if t != nil {
			n += t.size
		}
	}
	if n > 1<<30 {
		n = 1 << 30
	}
	return n
}

// evalOp computes op on constant operands.
func evalOp(op Op, w uint8, aw uint8, a, b, c uint64) uint64 {
	m := mask(w)
	switch op {
	case OAdd:
		return (a + b) & m
	case OSub:
		return (a - b) & m
	case OMul:
		return (a * b) & m
	case OSDiv:
		x, y := sext64(a, w), sext64(b, w)
		if y == 0 {
			return m // SMT-LIB semantics irrelevant: guarded by a decision
		}
		if y == -1 {
			return uint64(-x) & m
		}
		return uint64(x/y) & m
	case OUDiv:
		if b == 0 {
			return m
		}
		return (a / b) & m
	case OSRem:
		x, y := sext64(a, w), sext64(b, w)
		if y == 0 {
			return a
		}
		if y == -1 {
			return 0
		}
		return uint64(x%y) & m
	case OURem:
		if b == 0 {
			return a
		}
		return (a % b) & m
	case OAnd:
		return a & b
	case OOr:
		return a | b
	case OXor:
		return a ^ b
	case OShl:
		if b >= uint64(w) {
			return 0
		}
		return (a << b) & m
	case OLShr:
		if b >= uint64(w) {
			return 0
		}
		return a >> b
	case OAShr:
		x := sext64(a, w)
		if b >= uint64(w) {
			if x < 0 {
				return m
			}
			return 0
		}
		return uint64(x>>b) & m
	case ONeg:
		return (-a) & m
	case OBNot:
		return (^a) & m
	case OEq:
		if a == b {
			return 1
		}
		return 0
	case OUlt:
		if a < b {
			return 1
		}
		return 0
	case OUle:
		if a <= b {
			return 1
		}
		return 0
	case OSlt:
		if sext64(a, aw) < sext64(b, aw) {
			return 1
		}
		return 0
	case OSle:
		if sext64(a, aw) <= sext64(b, aw) {
			return 1
		}
		return 0
	case ONot:
		return a ^ 1
	case OBAnd:
		return a & b
	case OBOr:
		return a | b
	case OIte:
		if a != 0 {
			return b
		}
		return c
	case OZext:
		return a
	case OSext:
		return uint64(sext64(a, aw)) & m
	case OTrunc:
		return a & m
	}
	panic("evalOp: bad op")
}

func mkVar(name string, w uint8) *Term {
	return hashed(&Term{op: OVar, w: w, name: name, size: 1})
}

func mkBin(op Op, a, b *Term) *Term {
	w := a.w
	switch op {
	case OEq, OUlt, OSlt, OUle, OSle:
		w = 0
	}
	if a.w != b.w {
		panic(fmt.Sprintf("mkBin %s: width mismatch %d vs %d", opNames[op], a.w, b.w))
	}
	if a.isConst() && b.isConst() {
		return mkConst(w, evalOp(op, w, a.w, a.val, b.val, 0))
	}
	switch op {
	case OBAnd:
		if a.isFalse() || b.isFalse() {
			return termFalse
		}
		if a.isTrue() {
			return b
		}
		if b.isTrue() {
			return a
		}
		if a == b {
			return a
		}
	case OBOr:
		if a.isTrue() || b.isTrue() {
			return termTrue
		}
		if a.isFalse() {
			return b
		}
		if b.isFalse() {
			return a
		}
		if a == b {
			return a
		}
	case OEq:
		if a == b {
			return termTrue
		}
		if a.w == 0 {
			if a.isTrue() {
				return b
			}
			if b.isTrue() {
				return a
			}
			if a.isFalse() {
				return mkNot(b)
			}
			if b.isFalse() {
				return mkNot(a)
			}
		}
		// eq(ite(c, k1, k2), k) with distinct constants
		if b.isConst() && a.op == OIte && a.b.isConst() && a.c.isConst() {
			t1 := a.b.val == b.val
			t2 := a.c.val == b.val
			switch {
			case t1 && t2:
				return termTrue
			case t1:
				return a.a
			case t2:
				return mkNot(a.a)
			default:
				return termFalse
			}
		}
	case OAdd:
		if b.isConst() && b.val == 0 {
			return a
		}
		if a.isConst() && a.val == 0 {
			return b
		}
	case OSub:
		if b.isConst() && b.val == 0 {
			return a
		}
		if a == b {
			return mkConst(w, 0)
		}
	case OMul:
		if b.isConst() && b.val == 1 {
			return a
		}
		if a.isConst() && a.val == 1 {
			return b
		}
		if (b.isConst() && b.val == 0) || (a.isConst() && a.val == 0) {
			return mkConst(w, 0)
		}
	case OAnd:
		if (b.isConst() && b.val == 0) || (a.isConst() && a.val == 0) {
			return mkConst(w, 0)
		}
	case OOr, OXor:
		if b.isConst() && b.val == 0 {
			return a
		}
		if a.isConst() && a.val == 0 {
			return b
		}
	case OShl, OLShr, OAShr:
		if b.isConst() && b.val == 0 {
			return a
		}
	case OSlt, OUlt:
		if a == b {
			return termFalse
		}
	case OSle, OUle:
		if a == b {
			return termTrue
		}
	}
	return hashed(&Term{op: op, w: w, a: a, b: b, size: tsize(a, b)})
}

func mkNot(a *Term) *Term {
	if a.w != 0 {
		panic("mkNot on non-bool")
	}
	if a.isConst() {
		return mkBool(a.val == 0)
	}
	if a.op == ONot {
		return a.a
	}
	return hashed(&Term{op: ONot, w: 0, a: a, size: tsize(a)})
}

func mkUn(op Op, a *Term) *Term {
	if op == ONot {
		return mkNot(a)
	}
	if a.isConst() {
		return mkConst(a.w, evalOp(op, a.w, a.w, a.val, 0, 0))
	}
	return hashed(&Term{op: op, w: a.w, a: a, size: tsize(a)})
}

func mkIte(c, x, y *Term) *Term {
	if c.w != 0 || x.w != y.w {
		panic("mkIte: bad widths")
	}
	if c.isConst() {
		if c.val != 0 {
			return x
		}
		return y
	}
	if x == y {
		return x
	}
	if x.isConst() && y.isConst() && x.val == y.val {
		return x
	}
	if x.w == 0 {
		if x.isTrue() && y.isFalse() {
			return c
		}
		if x.isFalse() && y.isTrue() {
			return mkNot(c)
		}
	}
	return hashed(&Term{op: OIte, w: x.w, a: c, b: x, c: y, size: tsize(c, x, y)})
}

// mkExt converts a to width w (zero/sign extension or truncation).
func mkExt(a *Term, w uint8, signed bool) *Term {
	if a.w == w {
		return a
	}
	if a.w == 0 {
		panic("mkExt on bool")
	}
	var op Op
	switch {
	case w < a.w:
		op = OTrunc
	case signed:
		op = OSext
	default:
		op = OZext
	}
	if a.isConst() {
		return mkConst(w, evalOp(op, w, a.w, a.val, 0, 0))
	}
	return hashed(&Term{op: op, w: w, a: a, size: tsize(a)})
}

func mkAnd(ts ...*Term) *Term {
	r := termTrue
	for _, t := range ts {
		r = mkBin(OBAnd, r, t)
	}
	return r
}

func mkOr(ts ...*Term) *Term {
	r := termFalse
	for _, t := range ts {
		r = mkBin(OBOr, r, t)
	}
	return r
}

// evalTerm evaluates t under a total assignment of variables (missing
// variables evaluate to their declared lower bound).
type evalCtx struct {
	model map[string]uint64
	memo  map[*Term]uint64
}

func (e *evalCtx) eval(t *Term) uint64 {
	switch t.op {
	case OConst:
		return t.val
	case OVar:
		if v, ok := e.model[t.name]; ok {
			return v & mask1(t.w)
		}
		if t.w == 0 {
			return 0
		}
		return uint64(t.lo) & mask(t.w)
	}
	if t.size > 8 {
		if v, ok := e.memo[t]; ok {
			return v
		}
	}
	var r uint64
	switch t.op {
	case OIte:
		if e.eval(t.a) != 0 {
			r = e.eval(t.b)
		} else {
			r = e.eval(t.c)
		}
	case OBAnd:
		if e.eval(t.a) == 0 {
			r = 0
		} else {
			r = e.eval(t.b)
		}
	case OBOr:
		if e.eval(t.a) != 0 {
			r = 1
		} else {
			r = e.eval(t.b)
		}
	default:
		a := e.eval(t.a)
		var b uint64
		if t.b != nil {
			b = e.eval(t.b)
		}
		r = evalOp(t.op, t.w, t.a.w, a, b, 0)
	}
	if t.size > 8 {
		if e.memo == nil {
			e.memo = map[*Term]uint64{}
		}
		e.memo[t] = r
	}
	return r
}

func mask1(w uint8) uint64 {
	if w == 0 {
		return 1
	}
	return mask(w)
}

// partialEval evaluates t if it depends only on variables in fixed.
func partialEval(t *Term, fixed map[string]uint64, memo map[*Term]pe) (uint64, bool) {
	switch t.op {
	case OConst:
		return t.val, true
	case OVar:
		v, ok := fixed[t.name]
		return v, ok
	}
	if r, ok := memo[t]; ok {
		return r.v, r.ok
	}
	var v uint64
	var ok bool
	switch t.op {
	case OIte:
		c, okc := partialEval(t.a, fixed, memo)
		if okc {
			if c != 0 {
				v, ok = partialEval(t.b, fixed, memo)
			} else {
				v, ok = partialEval(t.c, fixed, memo)
			}
		}
	case OBAnd:
		a, oka := partialEval(t.a, fixed, memo)
		b, okb := partialEval(t.b, fixed, memo)
		switch {
		case oka && a == 0, okb && b == 0:
			v, ok = 0, true
		case oka && okb:
			v, ok = 1, true
		}
	case OBOr:
		a, oka := partialEval(t.a, fixed, memo)
		b, okb := partialEval(t.b, fixed, memo)
		switch {
		case oka && a != 0, okb && b != 0:
			v, ok = 1, true
		case oka && okb:
			v, ok = 0, true
		}
	default:
		a, oka := partialEval(t.a, fixed, memo)
		okb := true
		var b uint64
		if t.b != nil {
			b, okb = partialEval(t.b, fixed, memo)
		}
		if oka && okb {
			v, ok = evalOp(t.op, t.w, t.a.w, a, b, 0), true
		}
	}
	memo[t] = pe{v, ok}
	return v, ok
}

type pe struct {
	v  uint64
	ok bool
}

// collectVars appends the distinct variables of t.
func collectVars(t *Term, seen map[*Term]bool, out *[]*Term) {
	if t == nil || seen[t] {
		return
	}
	seen[t] = true
	if t.op == OVar {
		*out = append(*out, t)
		return
	}
	collectVars(t.a, seen, out)
	collectVars(t.b, seen, out)
	collectVars(t.c, seen, out)
}

// ---- SMT-LIB printing (bit-vector printer) ----

type smtPrinter struct {
	names map[*Term]string
	n     int
	out   *strings.Builder
}

func sortOf(w uint8) string {
	if w == 0 {
		return "Bool"
	}
	return fmt.Sprintf("(_ BitVec %d)", w)
}

func constSMT(t *Term) string {
	if t.w == 0 {
		if t.val != 0 {
			return "true"
		}
		return "false"
	}
	if t.w%4 == 0 {
		return fmt.Sprintf("#x%0*x", int(t.w/4), t.val)
	}
	return fmt.Sprintf("(_ bv%d %d)", t.val, t.w)
}

// ref returns the SMT name of t, emitting definitions as necessary into p.out.
func (p *smtPrinter) ref(t *Term) string {
	switch t.op {
	case OConst:
		return constSMT(t)
	case OVar:
		return t.name
	}
	if s, ok := p.names[t]; ok {
		return s
	}
	var body string
	switch t.op {
	case OIte:
		body = fmt.Sprintf("(ite %s %s %s)", p.ref(t.a), p.ref(t.b), p.ref(t.c))
	case ONot, ONeg, OBNot:
		body = fmt.Sprintf("(%s %s)", opNames[t.op], p.ref(t.a))
	case OZext:
		body = fmt.Sprintf("((_ zero_extend %d) %s)", t.w-t.a.w, p.ref(t.a))
	case OSext:
		body = fmt.Sprintf("((_ sign_extend %d) %s)", t.w-t.a.w, p.ref(t.a))
	case OTrunc:
		body = fmt.Sprintf("((_ extract %d 0) %s)", t.w-1, p.ref(t.a))
	default:
		body = fmt.Sprintf("(%s %s %s)", opNames[t.op], p.ref(t.a), p.ref(t.b))
	}
	if t.size <= 3 {
		// small terms inline
		p.names[t] = body
		return body
	}
	p.n++
	name := fmt.Sprintf("t!%d", p.n)
	fmt.Fprintf(p.out, "(define-fun %s () %s %s)\n", name, sortOf(t.w), body)
	p.names[t] = name
	return name
}

// String renders a term in a compact readable form (for reports).
func (t *Term) String() string {
	var sb strings.Builder
	p := &smtPrinter{names: map[*Term]string{}, out: &strings.Builder{}}
	// render fully inline
	var rec func(t *Term, depth int)
	rec = func(t *Term, depth int) {
		if depth > 12 {
			sb.WriteString("…")
			return
		}
		switch t.op {
		case OConst:
			if t.w == 0 {
				sb.WriteString(constSMT(t))
			} else {
				fmt.Fprintf(&sb, "%d", sext64(t.val, t.w))
			}
		case OVar:
			sb.WriteString(t.name)
		default:
			sb.WriteString("(")
			sb.WriteString(opNames[t.op])
			for _, x := range []*Term{t.a, t.b, t.c} {
				if x != nil {
					sb.WriteString(" ")
					rec(x, depth+1)
				}
			}
			sb.WriteString(")")
		}
	}
	_ = p
	rec(t, 0)
	return sb.String()
}
