package interp

// Symbolic scalar values and the symbolic versions of binop/unop/conv.

import (
	"fmt"
	"go/token"
	"go/types"
)

// sym is a symbolic scalar: a term plus the Go basic kind it stands for.
type sym struct {
	k types.BasicKind
	t *Term
}

func kindWidth(k types.BasicKind) uint8 {
	switch k {
	case types.Bool:
		return 0
	case types.Int8, types.Uint8:
		return 8
	case types.Int16, types.Uint16:
		return 16
	case types.Int32, types.Uint32:
		return 32
	case types.Int, types.Int64, types.Uint, types.Uint64, types.Uintptr:
		return 64
	}
	panic(fmt.Sprintf("kindWidth: unsupported kind %v", k))
}

func kindSigned(k types.BasicKind) bool {
	switch k {
	case types.Int, types.Int8, types.Int16, types.Int32, types.Int64:
		return true
	}
	return false
}

// kindOf returns the basic kind of a concrete scalar value.
func kindOf(x value) (types.BasicKind, bool) {
	switch x.(type) {
	case bool:
		return types.Bool, true
	case int:
		return types.Int, true
	case int8:
		return types.Int8, true
	case int16:
		return types.Int16, true
	case int32:
		return types.Int32, true
	case int64:
		return types.Int64, true
	case uint:
		return types.Uint, true
	case uint8:
		return types.Uint8, true
	case uint16:
		return types.Uint16, true
	case uint32:
		return types.Uint32, true
	case uint64:
		return types.Uint64, true
	case uintptr:
		return types.Uintptr, true
	case sym:
		return x.(sym).k, true
	}
	return 0, false
}

// toTerm converts a concrete or symbolic scalar to a term.
func toTerm(x value) *Term {
	switch x := x.(type) {
	case sym:
		return x.t
	case bool:
		return mkBool(x)
	case int:
		return mkConst(64, uint64(x))
	case int8:
		return mkConst(8, uint64(x))
	case int16:
		return mkConst(16, uint64(x))
	case int32:
		return mkConst(32, uint64(x))
	case int64:
		return mkConst(64, uint64(x))
	case uint:
		return mkConst(64, uint64(x))
	case uint8:
		return mkConst(8, uint64(x))
	case uint16:
		return mkConst(16, uint64(x))
	case uint32:
		return mkConst(32, uint64(x))
	case uint64:
		return mkConst(64, x)
	case uintptr:
		return mkConst(64, uint64(x))
	}
	panic(fmt.Sprintf("toTerm: not a scalar: %T", x))
}

// concreteOf builds a concrete Go value of kind k from bits v.
func concreteOf(k types.BasicKind, v uint64) value {
	switch k {
	case types.Bool:
		return v != 0
	case types.Int:
		return int(v)
	case types.Int8:
		return int8(v)
	case types.Int16:
		return int16(v)
	case types.Int32:
		return int32(v)
	case types.Int64:
		return int64(v)
	case types.Uint:
		return uint(v)
	case types.Uint8:
		return uint8(v)
	case types.Uint16:
		return uint16(v)
	case types.Uint32:
		return uint32(v)
	case types.Uint64:
		return v
	case types.Uintptr:
		return uintptr(v)
	}
	panic("concreteOf: bad kind")
}

// mkSym wraps a term, folding constants back to concrete values.
func mkSym(k types.BasicKind, t *Term) value {
	if t.isConst() {
		return concreteOf(k, t.val)
	}
	return sym{k, t}
}

func isSym(x value) bool {
	_, ok := x.(sym)
	return ok
}

func symBinop(op token.Token, x, y value) value {
	k, ok := kindOf(x)
	if !ok {
		panic(fmt.Sprintf("symBinop: non-scalar operand %T %s %T", x, op, y))
	}
	a := toTerm(x)
	signed := kindSigned(k)
	switch op {
	case token.SHL, token.SHR:
		ky, _ := kindOf(y)
		b := toTerm(y)
		// bring the count to the width of a, saturating
		if b.w > a.w {
			big := mkBin(OUle, mkConst(b.w, uint64(a.w)), b)
			b = mkIte(big, mkConst(a.w, uint64(a.w)), mkExt(b, a.w, false))
		} else if b.w < a.w {
			b = mkExt(b, a.w, false)
		}
		_ = ky
		switch {
		case op == token.SHL:
			return mkSym(k, mkBin(OShl, a, b))
		case signed:
			return mkSym(k, mkBin(OAShr, a, b))
		default:
			return mkSym(k, mkBin(OLShr, a, b))
		}
	}
	b := toTerm(y)
	if a.w != b.w {
		panic(fmt.Sprintf("symBinop: width mismatch %T %s %T", x, op, y))
	}
	switch op {
	case token.ADD:
		return mkSym(k, mkBin(OAdd, a, b))
	case token.SUB:
		return mkSym(k, mkBin(OSub, a, b))
	case token.MUL:
		return mkSym(k, mkBin(OMul, a, b))
	case token.QUO:
		if signed {
			return mkSym(k, mkBin(OSDiv, a, b))
		}
		return mkSym(k, mkBin(OUDiv, a, b))
	case token.REM:
		if signed {
			return mkSym(k, mkBin(OSRem, a, b))
		}
		return mkSym(k, mkBin(OURem, a, b))
	case token.AND:
		if k == types.Bool {
			return mkSym(k, mkBin(OBAnd, a, b))
		}
		return mkSym(k, mkBin(OAnd, a, b))
	case token.OR:
		if k == types.Bool {
			return mkSym(k, mkBin(OBOr, a, b))
		}
		return mkSym(k, mkBin(OOr, a, b))
	case token.XOR:
		return mkSym(k, mkBin(OXor, a, b))
	case token.AND_NOT:
		return mkSym(k, mkBin(OAnd, a, mkUn(OBNot, b)))
	case token.EQL:
		return mkSym(types.Bool, mkBin(OEq, a, b))
	case token.NEQ:
		return mkSym(types.Bool, mkNot(mkBin(OEq, a, b)))
	case token.LSS:
		if signed {
			return mkSym(types.Bool, mkBin(OSlt, a, b))
		}
		return mkSym(types.Bool, mkBin(OUlt, a, b))
	case token.LEQ:
		if signed {
			return mkSym(types.Bool, mkBin(OSle, a, b))
		}
		return mkSym(types.Bool, mkBin(OUle, a, b))
	case token.GTR:
		if signed {
			return mkSym(types.Bool, mkBin(OSlt, b, a))
		}
		return mkSym(types.Bool, mkBin(OUlt, b, a))
	case token.GEQ:
		if signed {
			return mkSym(types.Bool, mkBin(OSle, b, a))
		}
		return mkSym(types.Bool, mkBin(OUle, b, a))
	}
	panic(fmt.Sprintf("symBinop: unsupported op %s on %T", op, x))
}

func symUnop(op token.Token, x sym) value {
	switch op {
	case token.SUB:
		return mkSym(x.k, mkUn(ONeg, x.t))
	case token.NOT:
		return mkSym(x.k, mkNot(x.t))
	case token.XOR:
		return mkSym(x.k, mkUn(OBNot, x.t))
	}
	panic(fmt.Sprintf("symUnop: unsupported op %s", op))
}

// symConv converts a symbolic integer to another integer kind.
func symConvInt(dst types.BasicKind, x sym) value {
	w := kindWidth(dst)
	return mkSym(dst, mkExt(x.t, w, kindSigned(x.k)))
}

// equalsV is equals() for operands that may contain symbolic scalars; the
// result is a bool or a symbolic bool.
func equalsV(t types.Type, x, y value) value {
	if isSym(x) || isSym(y) {
		return symBinop(token.EQL, x, y)
	}
	switch xv := x.(type) {
	case structure:
		yv := y.(structure)
		st := t.Underlying().(*types.Struct)
		var acc value = true
		for i := range xv {
			f := st.Field(i)
			if f.Name() == "_" {
				continue
			}
			acc = andV(acc, equalsV(f.Type(), xv[i], yv[i]))
		}
		return acc
	case array:
		yv := y.(array)
		et := t.Underlying().(*types.Array).Elem()
		var acc value = true
		for i := range xv {
			acc = andV(acc, equalsV(et, xv[i], yv[i]))
		}
		return acc
	case iface:
		yv := y.(iface)
		if xv.t == nil || yv.t == nil || !sameType(xv.t, yv.t) {
			return xv.t == nil && yv.t == nil
		}
		return equalsV(xv.t, xv.v, yv.v)
	}
	return equals(t, x, y)
}

func andV(a, b value) value {
	if ab, ok := a.(bool); ok {
		if !ab {
			return false
		}
		return b
	}
	if bb, ok := b.(bool); ok {
		if !bb {
			return false
		}
		return a
	}
	return mkSym(types.Bool, mkBin(OBAnd, toTerm(a), toTerm(b)))
}

func notV(a value) value {
	if ab, ok := a.(bool); ok {
		return !ab
	}
	return mkSym(types.Bool, mkNot(toTerm(a)))
}

// hasSym reports whether a (shallow-ish) value contains symbolic scalars.
func hasSym(x value) bool {
	switch x := x.(type) {
	case sym:
		return true
	case structure:
		for _, f := range x {
			if hasSym(f) {
				return true
			}
		}
	case array:
		for _, f := range x {
			if hasSym(f) {
				return true
			}
		}
	case iface:
		return hasSym(x.v)
	}
	return false
}
