package interp

// Harness intrinsics (package zzvp) and the table of externals.

import (
	"go/types"
	"math"
)

type externalFn func(fr *frame, args []value) value

var externals = map[string]externalFn{}

const zz = TargetPrefix + "/zzvp."

func init() {
	externals[zz+"Int"] = func(fr *frame, a []value) value {
		lo, hi := int64(a[1].(int)), int64(a[2].(int))
		if lo > hi {
			fr.i.path.abort(OutDropped, "empty range")
		}
		if lo == hi {
			fr.i.path.varSeq[sanitize(a[0].(string))]++ // keep the numbering of named inputs in step with the native side
			return int(lo)
		}
		return sym{types.Int, fr.i.path.NewVar(a[0].(string), 64, lo, hi, true)}
	}
	externals[zz+"Int32"] = func(fr *frame, a []value) value {
		return sym{types.Int32, fr.i.path.NewVar(a[0].(string), 32, math.MinInt32, math.MaxInt32, false)}
	}
	externals[zz+"Bool"] = func(fr *frame, a []value) value {
		return sym{types.Bool, fr.i.path.NewVar(a[0].(string), 0, 0, 1, false)}
	}
	externals[zz+"Byte"] = func(fr *frame, a []value) value {
		lo, hi := a[1].(uint8), a[2].(uint8)
		if lo == hi {
			fr.i.path.varSeq[sanitize(a[0].(string))]++
			return lo
		}
		v := fr.i.path.NewVar(a[0].(string), 8, int64(lo), int64(hi), false)
		p := fr.i.path
		c := mkAnd(mkBin(OUle, mkConst(8, uint64(lo)), v), mkBin(OUle, v, mkConst(8, uint64(hi))))
		p.pc = append(p.pc, pcEntry{c, []*Term{v}})
		return sym{types.Uint8, v}
	}
	externals[zz+"Choose"] = func(fr *frame, a []value) value {
		n := fr.concrete(a[1], "choose-n").(int)
		k := fr.i.path.Choose(n, "choose:"+a[0].(string))
		fr.i.path.hchoices = append(fr.i.path.hchoices, k)
		return k
	}
	externals[zz+"Param"] = func(fr *frame, a []value) value {
		if v, ok := fr.i.path.params[a[0].(string)]; ok {
			return v
		}
		return a[1]
	}
	externals[zz+"Assume"] = func(fr *frame, a []value) value {
		fr.i.path.Assume(toTerm(a[0]))
		return nil
	}
	externals[zz+"Assert"] = func(fr *frame, a []value) value {
		fr.i.path.Assert(toTerm(a[0]), a[1].(string))
		return nil
	}
	externals[zz+"Reach"] = func(fr *frame, a []value) value {
		fr.i.path.tags = append(fr.i.path.tags, a[0].(string))
		return nil
	}
	externals[zz+"And"] = func(fr *frame, a []value) value {
		return mkSym(types.Bool, mkBin(OBAnd, toTerm(a[0]), toTerm(a[1])))
	}
	externals[zz+"Or"] = func(fr *frame, a []value) value {
		return mkSym(types.Bool, mkBin(OBOr, toTerm(a[0]), toTerm(a[1])))
	}
	externals[zz+"Not"] = func(fr *frame, a []value) value {
		return mkSym(types.Bool, mkNot(toTerm(a[0])))
	}
	externals[zz+"Implies"] = func(fr *frame, a []value) value {
		return mkSym(types.Bool, mkBin(OBOr, mkNot(toTerm(a[0])), toTerm(a[1])))
	}
	externals[zz+"Eqv"] = func(fr *frame, a []value) value {
		return mkSym(types.Bool, mkBin(OEq, toTerm(a[0]), toTerm(a[1])))
	}
	externals[zz+"Ite"] = func(fr *frame, a []value) value {
		return mkSym(types.Int, mkIte(toTerm(a[0]), toTerm(a[1]), toTerm(a[2])))
	}
	externals[zz+"IteB"] = func(fr *frame, a []value) value {
		return mkSym(types.Bool, mkIte(toTerm(a[0]), toTerm(a[1]), toTerm(a[2])))
	}
	externals[zz+"Concretize"] = func(fr *frame, a []value) value {
		return fr.concrete(a[0], "zzvp.Concretize")
	}
	externals[zz+"ConcretizeB"] = func(fr *frame, a []value) value {
		return fr.concrete(a[0], "zzvp.ConcretizeB")
	}
	externals[zz+"Observe"] = func(fr *frame, a []value) value {
		if fr.i.observers == nil {
			fr.i.observers = map[string][]value{}
		}
		name := a[0].(string)
		fr.i.observers[name] = append(fr.i.observers[name], a[1].(iface).v)
		return nil
	}
	externals[zz+"ObserveReturn"] = func(fr *frame, a []value) value {
		if fr.i.observersRet == nil {
			fr.i.observersRet = map[string][]value{}
		}
		name := a[0].(string)
		fr.i.observersRet[name] = append(fr.i.observersRet[name], a[1].(iface).v)
		return nil
	}
	externals[zz+"MapOrder"] = func(fr *frame, a []value) value {
		fr.i.mapOrder = a[0].(int)
		return nil
	}
	externals[zz+"Schedule"] = func(fr *frame, a []value) value {
		fr.i.sched.explore = a[0].(int) != 0
		return nil
	}
	externals[zz+"Preemptions"] = func(fr *frame, a []value) value {
		fr.i.sched.preemptBound = a[0].(int)
		return nil
	}
	externals[zz+"RaceDetect"] = func(fr *frame, a []value) value {
		fr.i.sched.hb = a[0].(bool)
		return nil
	}
	externals[zz+"Fuel"] = func(fr *frame, a []value) value {
		fr.i.path.fuel = a[0].(int)
		return nil
	}
	externals[zz+"Obs"] = func(fr *frame, a []value) value {
		v := a[1].(iface)
		fr.i.path.obs[a[0].(string)] = nativeSprint(fr, v)
		return nil
	}
	externals[zz+"IntMode"] = func(fr *frame, a []value) value {
		fr.i.path.intMode = a[0].(bool)
		return nil
	}
	externals[zz+"Exists"] = func(fr *frame, a []value) value {
		t := fr.i.path.simplify(toTerm(a[0]))
		if t.isConst() {
			return t.val != 0
		}
		p := fr.i.path
		if p.pos < len(p.prefix) {
			p.abort(OutEngineError, "zzvp.Exists during replay must be deterministic: use it after all decisions of interest")
		}
		p.ensureModel()
		if p.evalBool(t) {
			return true
		}
		res, _ := p.query(false, t)
		switch res {
		case "sat":
			return true
		case "unsat":
			return false
		}
		p.abort(OutInconclusive, "solver answered %s on Exists", res)
		return false
	}
	externals[zz+"SetArgs"] = func(fr *frame, a []value) value {
		var args []value
		for _, x := range a[0].([]value) {
			args = append(args, cstr(fr, x))
		}
		fr.i.osArgs = args
		return nil
	}
	externals[zz+"SetFile"] = func(fr *frame, a []value) value {
		if fr.i.files == nil {
			fr.i.files = map[string]string{}
		}
		fr.i.files[cstr(fr, a[0])] = cstr(fr, a[1])
		return nil
	}
	externals[zz+"RunMain"] = func(fr *frame, a []value) (res value) {
		fr.i.flags = nil
		defer func() {
			if r := recover(); r != nil {
				if ep, ok := r.(exitPanic); ok {
					res = int(ep)
					return
				}
				panic(r)
			}
		}()
		call(fr.i, fr, 0, a[0], nil)
		return 0
	}
	externals[zz+"ErrOutput"] = func(fr *frame, a []value) value { return fr.i.path.errOut.String() }
	externals[zz+"Symbolic"] = func(fr *frame, a []value) value { return true }
	externals[zz+"Output"] = func(fr *frame, a []value) value { return fr.i.path.out.String() }
}

// permute applies the map-order exploration mode to a list of indices.
func (i *interpreter) permute(order []int, site string) []int {
	n := len(order)
	if n < 2 || i.mapOrder == 0 {
		return order
	}
	switch i.mapOrder {
	case 1:
		if i.path.Choose(2, "maporder:"+site) == 1 {
			r := make([]int, n)
			for k := range order {
				r[k] = order[n-1-k]
			}
			return r
		}
		return order
	case 2:
		k := i.path.Choose(n, "maporder:"+site)
		return append(append([]int{}, order[k:]...), order[:k]...)
	default:
		// all permutations: choose successively
		rest := append([]int{}, order...)
		var r []int
		for len(rest) > 1 {
			k := i.path.Choose(len(rest), "maporder:"+site)
			r = append(r, rest[k])
			rest = append(rest[:k], rest[k+1:]...)
		}
		return append(r, rest...)
	}
}
