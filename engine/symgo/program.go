package interp

// Loading /repo's current working tree (plus harness overlay) into go/ssa.

import (
	"fmt"
	"go/types"
	"os"
	"sort"
	"strings"

	"golang.org/x/tools/go/packages"
	"golang.org/x/tools/go/ssa"
	"golang.org/x/tools/go/ssa/ssautil"
)

const TargetPrefix = "github.com/crillab/gophersat"

type Program struct {
	prog               *ssa.Program
	sizes              types.Sizes
	target             map[*ssa.Package]bool // packages whose code is the subject (interpreted, init run)
	interp             map[string]bool       // package paths whose functions may be interpreted from source
	globals            []*ssa.Global
	initOrder          []*ssa.Package
	runtimeErrorString types.Type
	errorStringPtr     types.Type // *errors.errorString
	byName             map[string]*ssa.Function
	LoadSeconds        float64
	Files              []string
}

// interpretable stdlib packages (pure Go, no reliance on package initialisers
// beyond what initRun lists).
var interpPkgs = map[string]bool{
	"sort": true, "math/bits": true, "errors": true, "slices": true, "cmp": true,
}

// stdlib packages whose init is run on every path.
var initRun = map[string]bool{"sort": true, "math/bits": true}

func Load(repoDir string, overlay map[string][]byte, patterns []string) (*Program, error) {
	cfg := &packages.Config{
		Mode:    packages.LoadAllSyntax,
		Dir:     repoDir,
		Overlay: overlay,
		Env:     append(os.Environ(), "GOFLAGS=-mod=mod", "GOPROXY=off", "GOSUMDB=off", "GOTOOLCHAIN=local", "CGO_ENABLED=0"),
	}
	initial, err := packages.Load(cfg, patterns...)
	if err != nil {
		return nil, err
	}
	var errs []string
	packages.Visit(initial, nil, func(p *packages.Package) {
		for _, e := range p.Errors {
			errs = append(errs, e.Error())
		}
	})
	if len(errs) > 0 {
		return nil, fmt.Errorf("load errors:\n%s", strings.Join(errs, "\n"))
	}
	prog, pkgs := ssautil.AllPackages(initial, ssa.InstantiateGenerics)
	P := &Program{prog: prog, target: map[*ssa.Package]bool{}, interp: map[string]bool{}, byName: map[string]*ssa.Function{}}
	P.sizes = types.SizesFor("gc", "amd64")
	for _, p := range pkgs {
		if p != nil {
			p.Build()
		}
	}
	for _, p := range prog.AllPackages() {
		path := p.Pkg.Path()
		if path == TargetPrefix || strings.HasPrefix(path, TargetPrefix+"/") {
			P.target[p] = true
			P.interp[path] = true
			p.Build()
		} else if interpPkgs[path] {
			P.interp[path] = true
			p.Build()
		}
	}
	// globals and init order of target packages (+ initRun stdlib packages)
	var order []*ssa.Package
	seen := map[*types.Package]bool{}
	var visit func(tp *types.Package)
	visit = func(tp *types.Package) {
		if seen[tp] {
			return
		}
		seen[tp] = true
		for _, imp := range tp.Imports() {
			visit(imp)
		}
		sp := prog.Package(tp)
		if sp == nil {
			return
		}
		if P.target[sp] || initRun[tp.Path()] {
			order = append(order, sp)
		}
	}
	var roots []*ssa.Package
	for p := range P.target {
		roots = append(roots, p)
	}
	sort.Slice(roots, func(i, j int) bool { return roots[i].Pkg.Path() < roots[j].Pkg.Path() })
	for _, p := range roots {
		visit(p.Pkg)
	}
	P.initOrder = order
	for _, p := range order {
		var names []string
		for n, m := range p.Members {
			if _, ok := m.(*ssa.Global); ok {
				names = append(names, n)
			}
		}
		sort.Strings(names)
		for _, n := range names {
			P.globals = append(P.globals, p.Members[n].(*ssa.Global))
		}
	}
	if rt := prog.ImportedPackage("runtime"); rt != nil {
		P.runtimeErrorString = rt.Type("errorString").Object().Type()
	} else {
		P.runtimeErrorString = types.Typ[types.String]
	}
	if ep := prog.ImportedPackage("errors"); ep != nil {
		P.errorStringPtr = types.NewPointer(ep.Type("errorString").Object().Type())
	}
	for _, p := range initial {
		P.Files = append(P.Files, p.GoFiles...)
	}
	return P, nil
}

func (P *Program) interpreted(fn *ssa.Function) bool {
	if fn.Pkg != nil {
		return P.target[fn.Pkg]
	}
	// synthetic wrappers, instantiations: use the origin's package
	if o := fn.Origin(); o != nil && o.Pkg != nil {
		return P.target[o.Pkg]
	}
	if fn.Synthetic != "" {
		return true
	}
	return false
}

func (P *Program) interpretable(fn *ssa.Function) bool {
	pk := fn.Pkg
	if pk == nil {
		if o := fn.Origin(); o != nil {
			pk = o.Pkg
		}
	}
	if pk == nil {
		return fn.Synthetic != ""
	}
	return P.interp[pk.Pkg.Path()]
}

// lookupFunc finds a package-level function by "pkgpath.Name".
func (P *Program) lookupFunc(qname string) *ssa.Function {
	i := strings.LastIndex(qname, ".")
	if i < 0 {
		return nil
	}
	path, name := qname[:i], qname[i+1:]
	for _, p := range P.prog.AllPackages() {
		if p.Pkg.Path() == path {
			return p.Func(name)
		}
	}
	return nil
}

// HarnessNames lists the functions named VP_* of all target packages.
func (P *Program) HarnessNames() []string {
	var out []string
	for p := range P.target {
		for n, m := range p.Members {
			if f, ok := m.(*ssa.Function); ok && strings.HasPrefix(n, "VP_") {
				out = append(out, f.Pkg.Pkg.Path()+"."+n)
			}
		}
	}
	sort.Strings(out)
	return out
}

// mkError builds an interpreted error value (*errors.errorString).
func (P *Program) mkError(msg string) value {
	var s value = structure{msg}
	return iface{t: P.errorStringPtr, v: &s}
}
