package interp

// Native bridges for the standard-library surface reachable from gophersat.
// Arguments are concretised before a native call.

import (
	"bytes"
	"fmt"
	gotoken "go/token"
	"go/types"
	"io"
	"math"
	"sort"
	"strconv"
	"strings"
	"text/scanner"
	"unicode/utf8"

	"golang.org/x/tools/go/ssa"
)

// nativeObj is an opaque engine-side object (reader, scanner, file, ...).
type nativeObj struct{ o interface{} }

type nativeMethod struct {
	obj  nativeObj
	name string
}

// symString: a string with (possibly) symbolic bytes. Only produced by the
// bufio models when the underlying data contains symbolic bytes.
type symString struct{ b []value }

func isSymString(x value) bool { _, ok := x.(symString); return ok }

func (s symString) norm() value {
	for _, e := range s.b {
		if isSym(e) {
			return s
		}
	}
	bs := make([]byte, len(s.b))
	for i, e := range s.b {
		bs[i] = e.(uint8)
	}
	return string(bs)
}

func concatSymString(x, y value) value {
	toB := func(v value) []value {
		switch v := v.(type) {
		case string:
			r := make([]value, len(v))
			for i := 0; i < len(v); i++ {
				r[i] = v[i]
			}
			return r
		case symString:
			return v.b
		}
		panic("concatSymString")
	}
	return symString{append(append([]value{}, toB(x)...), toB(y)...)}.norm()
}

// concString concretises a (possibly symbolic) string.
func (fr *frame) concString(v value, site string) string {
	switch v := v.(type) {
	case string:
		return v
	case symString:
		bs := make([]byte, len(v.b))
		for i, e := range v.b {
			bs[i] = fr.concrete(e, site).(uint8)
		}
		return string(bs)
	}
	panic(fmt.Sprintf("concString: %T", v))
}

type stdStream struct {
	i  *interpreter
	fd int
}

func (s *stdStream) Write(b []byte) (int, error) {
	if s.fd == 1 {
		s.i.path.out.Write(b)
	} else {
		s.i.path.errOut.Write(b)
	}
	return len(b), nil
}

// shim that prints as a fixed string for %v and %s
type strShim struct{ s string }

func (s strShim) String() string { return s.s }

type errShim struct{ s string }

func (s errShim) Error() string { return s.s }

// findMethod looks up a niladic string method on the dynamic type.
func findMethod(i *interpreter, t types.Type, name string) *ssa.Function {
	ms := i.prog.MethodSets.MethodSet(t)
	for k := 0; k < ms.Len(); k++ {
		sel := ms.At(k)
		if sel.Obj().Name() == name {
			sig := sel.Type().(*types.Signature)
			if sig.Params().Len() == 0 && sig.Results().Len() == 1 {
				if b, ok := sig.Results().At(0).Type().Underlying().(*types.Basic); ok && b.Kind() == types.String {
					return i.prog.MethodValue(sel)
				}
			}
		}
	}
	return nil
}

// toNative converts an interpreter value to a native Go value suitable for
// formatting with package fmt.
func toNative(fr *frame, v value) interface{} {
	switch x := v.(type) {
	case nil:
		return nil
	case iface:
		if x.t == nil {
			return nil
		}
		if no, ok := x.v.(nativeObj); ok {
			return no.o
		}
		if m := findMethod(fr.i, x.t, "Error"); m != nil {
			if p, ok := x.v.(*value); ok && p == nil {
				return "<nil>"
			}
			s := call(fr.i, fr, gotoken.NoPos, m, []value{x.v})
			return errShim{fr.concString(s, "fmt")}
		}
		if m := findMethod(fr.i, x.t, "String"); m != nil {
			if p, ok := x.v.(*value); ok && p == nil {
				return "<nil>"
			}
			s := call(fr.i, fr, gotoken.NoPos, m, []value{x.v})
			return strShim{fr.concString(s, "fmt")}
		}
		return toNative(fr, x.v)
	case sym:
		return toNative(fr, fr.concrete(x, "fmt"))
	case symString:
		return fr.concString(x, "fmt")
	case bool, int, int8, int16, int32, int64, uint, uint8, uint16, uint32, uint64, uintptr, float32, float64, complex64, complex128, string:
		return x
	case []value:
		if x == nil {
			return []interface{}(nil)
		}
		allBytes := len(x) > 0
		r := make([]interface{}, len(x))
		for k, e := range x {
			r[k] = toNative(fr, e)
			if _, ok := r[k].(uint8); !ok {
				allBytes = false
			}
		}
		if allBytes {
			bs := make([]byte, len(r))
			for k := range r {
				bs[k] = r[k].(uint8)
			}
			return bs
		}
		return r
	case array:
		r := make([]interface{}, len(x))
		for k, e := range x {
			r[k] = toNative(fr, e)
		}
		return r
	case structure:
		var sb strings.Builder
		sb.WriteString("{")
		for k, e := range x {
			if k > 0 {
				sb.WriteString(" ")
			}
			fmt.Fprint(&sb, toNative(fr, e))
		}
		sb.WriteString("}")
		return strShim{sb.String()}
	case *omap:
		m := map[interface{}]interface{}{}
		if x != nil {
			for k, key := range x.keys {
				if x.live[k] {
					m[toNative(fr, key)] = toNative(fr, x.vals[k])
				}
			}
		}
		return m
	case *value:
		if x == nil {
			return nil
		}
		if no, ok := (*x).(nativeObj); ok {
			return no.o
		}
		return strShim{fmt.Sprintf("%p", x)}
	case nativeObj:
		return x.o
	case tuple:
		r := make([]interface{}, len(x))
		for k, e := range x {
			r[k] = toNative(fr, e)
		}
		return r
	}
	return strShim{fmt.Sprintf("<%T>", v)}
}

func nativeArgs(fr *frame, v value) []interface{} {
	xs, _ := v.([]value)
	r := make([]interface{}, len(xs))
	for k, e := range xs {
		r[k] = toNative(fr, e)
	}
	return r
}

func nativeSprint(fr *frame, v iface) string {
	return fmt.Sprint(toNative(fr, v))
}

func nativeString(i *interpreter, fr *frame, v iface) string {
	return fmt.Sprint(toNative(fr, v))
}

// writerOf adapts an interpreted io.Writer.
type ifaceWriter struct {
	fr *frame
	w  iface
}

func (w ifaceWriter) Write(b []byte) (int, error) {
	if no, ok := w.w.v.(nativeObj); ok {
		return no.o.(io.Writer).Write(b)
	}
	if p, ok := w.w.v.(*value); ok && p != nil {
		if no, ok := (*p).(nativeObj); ok {
			return no.o.(io.Writer).Write(b)
		}
	}
	fn := findWrite(w.fr.i, w.w.t)
	if fn == nil {
		panic(engineError{fmt.Sprintf("no Write method on %v", w.w.t)})
	}
	bs := make([]value, len(b))
	for k, c := range b {
		bs[k] = c
	}
	r := call(w.fr.i, w.fr, gotoken.NoPos, fn, []value{w.w.v, bs}).(tuple)
	n := int(asInt64(r[0]))
	if e := r[1].(iface); e.t != nil {
		return n, fmt.Errorf("%s", nativeString(w.fr.i, w.fr, e))
	}
	return n, nil
}

func findWrite(i *interpreter, t types.Type) *ssa.Function {
	ms := i.prog.MethodSets.MethodSet(t)
	for k := 0; k < ms.Len(); k++ {
		if ms.At(k).Obj().Name() == "Write" {
			return i.prog.MethodValue(ms.At(k))
		}
	}
	return nil
}

func findNamed(i *interpreter, t types.Type, name string) *ssa.Function {
	ms := i.prog.MethodSets.MethodSet(t)
	for k := 0; k < ms.Len(); k++ {
		if ms.At(k).Obj().Name() == name {
			return i.prog.MethodValue(ms.At(k))
		}
	}
	return nil
}

// ifaceReader adapts an interpreted io.Reader; it returns values (possibly
// symbolic bytes).
func readAllValues(fr *frame, r iface) []value {
	if no, ok := r.v.(nativeObj); ok {
		return no.o.(valueReader).readAll()
	}
	if p, ok := r.v.(*value); ok && p != nil {
		if no, ok := (*p).(nativeObj); ok {
			return no.o.(valueReader).readAll()
		}
	}
	fn := findNamed(fr.i, r.t, "Read")
	if fn == nil {
		panic(engineError{fmt.Sprintf("no Read method on %v", r.t)})
	}
	var out []value
	for iter := 0; iter < 1<<16; iter++ {
		buf := make([]value, 512)
		for k := range buf {
			buf[k] = uint8(0)
		}
		res := call(fr.i, fr, gotoken.NoPos, fn, []value{r.v, buf}).(tuple)
		n := int(asInt64(fr.concrete(res[0], "Read")))
		out = append(out, buf[:n]...)
		if e := res[1].(iface); e.t != nil {
			break
		}
		if n == 0 {
			break
		}
	}
	return out
}

type valueReader interface{ readAll() []value }

// bufReader models bufio.Reader / bufio.Scanner over a value sequence.
type bufReader struct {
	data   []value
	pos    int
	loaded bool
	src    iface
	text   value // scanner: current token
}

func (b *bufReader) readAll() []value { return b.data[b.pos:] }

func (b *bufReader) fill(fr *frame) {
	if !b.loaded {
		b.loaded = true
		b.data = readAllValues(fr, b.src)
	}
}

type vfile struct {
	name   string
	data   []value
	pos    int
	closed bool
}

func (f *vfile) readAll() []value { r := f.data[f.pos:]; f.pos = len(f.data); return r }

func strValues(s string) []value {
	r := make([]value, len(s))
	for i := 0; i < len(s); i++ {
		r[i] = s[i]
	}
	return r
}

type strReader struct {
	data []value
	pos  int
}

func (s *strReader) readAll() []value { r := s.data[s.pos:]; s.pos = len(s.data); return r }

func errIface(fr *frame, err error) value {
	if err == nil {
		return iface{}
	}
	return fr.i.P.mkError(err.Error())
}

func cstr(fr *frame, v value) string { return fr.concString(v, "native") }

func strSlice(fr *frame, v value) []string {
	xs := v.([]value)
	r := make([]string, len(xs))
	for i, e := range xs {
		r[i] = cstr(fr, e)
	}
	return r
}

func valStrs(ss []string) value {
	r := make([]value, len(ss))
	for i, s := range ss {
		r[i] = s
	}
	return r
}

func init() {
	ext := externals
	// ---- fmt ----
	ext["fmt.Sprintf"] = func(fr *frame, a []value) value {
		return fmt.Sprintf(cstr(fr, a[0]), nativeArgs(fr, a[1])...)
	}
	ext["fmt.Sprint"] = func(fr *frame, a []value) value { return fmt.Sprint(nativeArgs(fr, a[0])...) }
	ext["fmt.Sprintln"] = func(fr *frame, a []value) value { return fmt.Sprintln(nativeArgs(fr, a[0])...) }
	ext["fmt.Errorf"] = func(fr *frame, a []value) value {
		return fr.i.P.mkError(fmt.Sprintf(strings.ReplaceAll(cstr(fr, a[0]), "%w", "%v"), nativeArgs(fr, a[1])...))
	}
	ext["errors.New"] = func(fr *frame, a []value) value { return fr.i.P.mkError(cstr(fr, a[0])) }
	ext["fmt.Printf"] = func(fr *frame, a []value) value {
		n, _ := fmt.Fprintf(&fr.i.path.out, cstr(fr, a[0]), nativeArgs(fr, a[1])...)
		return tuple{n, iface{}}
	}
	ext["fmt.Println"] = func(fr *frame, a []value) value {
		n, _ := fmt.Fprintln(&fr.i.path.out, nativeArgs(fr, a[0])...)
		return tuple{n, iface{}}
	}
	ext["fmt.Print"] = func(fr *frame, a []value) value {
		n, _ := fmt.Fprint(&fr.i.path.out, nativeArgs(fr, a[0])...)
		return tuple{n, iface{}}
	}
	ext["fmt.Fprintf"] = func(fr *frame, a []value) value {
		n, err := fmt.Fprintf(ifaceWriter{fr, a[0].(iface)}, cstr(fr, a[1]), nativeArgs(fr, a[2])...)
		return tuple{n, errIface(fr, err)}
	}
	ext["fmt.Fprintln"] = func(fr *frame, a []value) value {
		n, err := fmt.Fprintln(ifaceWriter{fr, a[0].(iface)}, nativeArgs(fr, a[1])...)
		return tuple{n, errIface(fr, err)}
	}
	ext["fmt.Fprint"] = func(fr *frame, a []value) value {
		n, err := fmt.Fprint(ifaceWriter{fr, a[0].(iface)}, nativeArgs(fr, a[1])...)
		return tuple{n, errIface(fr, err)}
	}
	ext["io.WriteString"] = func(fr *frame, a []value) value {
		n, err := io.WriteString(ifaceWriter{fr, a[0].(iface)}, cstr(fr, a[1]))
		return tuple{n, errIface(fr, err)}
	}
	ext["log.Printf"] = func(fr *frame, a []value) value {
		fmt.Fprintf(&fr.i.path.errOut, cstr(fr, a[0]), nativeArgs(fr, a[1])...)
		return nil
	}
	ext["log.Println"] = func(fr *frame, a []value) value {
		fmt.Fprintln(&fr.i.path.errOut, nativeArgs(fr, a[0])...)
		return nil
	}
	// ---- strings / strconv ----
	ext["strings.Fields"] = func(fr *frame, a []value) value { return valStrs(strings.Fields(cstr(fr, a[0]))) }
	ext["strings.Split"] = func(fr *frame, a []value) value {
		return valStrs(strings.Split(cstr(fr, a[0]), cstr(fr, a[1])))
	}
	ext["strings.Join"] = func(fr *frame, a []value) value { return strings.Join(strSlice(fr, a[0]), cstr(fr, a[1])) }
	ext["strings.HasPrefix"] = func(fr *frame, a []value) value {
		return strings.HasPrefix(cstr(fr, a[0]), cstr(fr, a[1]))
	}
	ext["strings.HasSuffix"] = func(fr *frame, a []value) value {
		return strings.HasSuffix(cstr(fr, a[0]), cstr(fr, a[1]))
	}
	ext["strings.TrimSpace"] = func(fr *frame, a []value) value { return strings.TrimSpace(cstr(fr, a[0])) }
	ext["strings.Trim"] = func(fr *frame, a []value) value { return strings.Trim(cstr(fr, a[0]), cstr(fr, a[1])) }
	ext["strings.TrimRight"] = func(fr *frame, a []value) value { return strings.TrimRight(cstr(fr, a[0]), cstr(fr, a[1])) }
	ext["strings.TrimLeft"] = func(fr *frame, a []value) value { return strings.TrimLeft(cstr(fr, a[0]), cstr(fr, a[1])) }
	ext["strings.ToUpper"] = func(fr *frame, a []value) value { return strings.ToUpper(cstr(fr, a[0])) }
	ext["strings.Count"] = func(fr *frame, a []value) value { return strings.Count(cstr(fr, a[0]), cstr(fr, a[1])) }
	ext["strings.LastIndex"] = func(fr *frame, a []value) value { return strings.LastIndex(cstr(fr, a[0]), cstr(fr, a[1])) }
	ext["strings.ReplaceAll"] = func(fr *frame, a []value) value {
		return strings.ReplaceAll(cstr(fr, a[0]), cstr(fr, a[1]), cstr(fr, a[2]))
	}
	ext["strings.SplitN"] = func(fr *frame, a []value) value {
		return valStrs(strings.SplitN(cstr(fr, a[0]), cstr(fr, a[1]), int(asInt64(fr.concrete(a[2], "SplitN")))))
	}
	ext["strings.EqualFold"] = func(fr *frame, a []value) value { return strings.EqualFold(cstr(fr, a[0]), cstr(fr, a[1])) }
	ext["strings.TrimSuffix"] = func(fr *frame, a []value) value {
		return strings.TrimSuffix(cstr(fr, a[0]), cstr(fr, a[1]))
	}
	ext["strings.TrimPrefix"] = func(fr *frame, a []value) value {
		return strings.TrimPrefix(cstr(fr, a[0]), cstr(fr, a[1]))
	}
	ext["strings.Contains"] = func(fr *frame, a []value) value {
		return strings.Contains(cstr(fr, a[0]), cstr(fr, a[1]))
	}
	ext["strings.Index"] = func(fr *frame, a []value) value { return strings.Index(cstr(fr, a[0]), cstr(fr, a[1])) }
	ext["strings.Repeat"] = func(fr *frame, a []value) value {
		return strings.Repeat(cstr(fr, a[0]), int(asInt64(fr.concrete(a[1], "Repeat"))))
	}
	ext["strings.ToLower"] = func(fr *frame, a []value) value { return strings.ToLower(cstr(fr, a[0])) }
	ext["strings.NewReader"] = func(fr *frame, a []value) value {
		return ptrTo(nativeObj{&strReader{data: strValues(cstr(fr, a[0]))}})
	}
	ext["strconv.Atoi"] = func(fr *frame, a []value) value {
		n, err := strconv.Atoi(cstr(fr, a[0]))
		return tuple{n, errIface(fr, err)}
	}
	ext["strconv.Itoa"] = func(fr *frame, a []value) value {
		return strconv.Itoa(int(asInt64(fr.concrete(a[0], "Itoa"))))
	}
	ext["strconv.Quote"] = func(fr *frame, a []value) value { return strconv.Quote(cstr(fr, a[0])) }
	ext["sort.Strings"] = func(fr *frame, a []value) value {
		xs := a[0].([]value)
		ss := strSlice(fr, xs)
		sort.Strings(ss)
		for i, s := range ss {
			xs[i] = s
		}
		return nil
	}
	ext["math.Sqrt"] = func(fr *frame, a []value) value { return math.Sqrt(a[0].(float64)) }
	ext["math.Ceil"] = func(fr *frame, a []value) value { return math.Ceil(a[0].(float64)) }
	ext["math.Floor"] = func(fr *frame, a []value) value { return math.Floor(a[0].(float64)) }
	ext["math.Abs"] = func(fr *frame, a []value) value { return math.Abs(a[0].(float64)) }
	ext["math.Pow"] = func(fr *frame, a []value) value { return math.Pow(a[0].(float64), a[1].(float64)) }
	ext["math.Inf"] = func(fr *frame, a []value) value { return math.Inf(a[0].(int)) }
	ext["go/token.Lookup"] = func(fr *frame, a []value) value { return int(gotoken.Lookup(cstr(fr, a[0]))) }
	ext["unicode/utf8.RuneCountInString"] = func(fr *frame, a []value) value {
		return utf8.RuneCountInString(cstr(fr, a[0]))
	}
	// ---- (*strings.Reader) as io.Reader when invoked through an interface ----
	// handled by callNativeMethod.

	// ---- bufio ----
	ext["bufio.NewReader"] = func(fr *frame, a []value) value {
		return ptrTo(nativeObj{&bufReader{src: a[0].(iface)}})
	}
	ext["bufio.NewScanner"] = func(fr *frame, a []value) value {
		return ptrTo(nativeObj{&bufReader{src: a[0].(iface)}})
	}
	br := func(a []value) *bufReader { return (*a[0].(*value)).(nativeObj).o.(*bufReader) }
	ext["(*bufio.Reader).ReadByte"] = func(fr *frame, a []value) value {
		b := br(a)
		b.fill(fr)
		if b.pos >= len(b.data) {
			return tuple{uint8(0), fr.i.eof()}
		}
		c := b.data[b.pos]
		b.pos++
		return tuple{c, iface{}}
	}
	ext["(*bufio.Reader).UnreadByte"] = func(fr *frame, a []value) value {
		b := br(a)
		if b.pos > 0 {
			b.pos--
		}
		return iface{}
	}
	ext["(*bufio.Reader).ReadString"] = func(fr *frame, a []value) value {
		b := br(a)
		b.fill(fr)
		delim := fr.concrete(a[1], "ReadString").(uint8)
		start := b.pos
		for b.pos < len(b.data) {
			c := b.data[b.pos]
			b.pos++
			isDelim := fr.decideEqByte(c, delim, "ReadString")
			if isDelim {
				return tuple{symString{b.data[start:b.pos]}.norm(), iface{}}
			}
		}
		return tuple{symString{b.data[start:b.pos]}.norm(), fr.i.eof()}
	}
	ext["(*bufio.Scanner).Scan"] = func(fr *frame, a []value) value {
		b := br(a)
		b.fill(fr)
		if b.pos >= len(b.data) {
			b.text = ""
			return false
		}
		start := b.pos
		for b.pos < len(b.data) {
			c := b.data[b.pos]
			if fr.decideEqByte(c, '\n', "Scan") {
				end := b.pos
				b.pos++
				// drop trailing \r
				if end > start && fr.decideEqByte(b.data[end-1], '\r', "Scan/cr") {
					end--
				}
				b.text = symString{b.data[start:end]}.norm()
				return true
			}
			b.pos++
		}
		end := b.pos
		if end > start && fr.decideEqByte(b.data[end-1], '\r', "Scan/cr") {
			end--
		}
		b.text = symString{b.data[start:end]}.norm()
		return true
	}
	ext["(*bufio.Scanner).Text"] = func(fr *frame, a []value) value { return br(a).text }
	ext["(*bufio.Scanner).Err"] = func(fr *frame, a []value) value { return iface{} }
	ext["(*bufio.Scanner).Buffer"] = func(fr *frame, a []value) value { return nil }

	// ---- text/scanner ----
	sc := func(a []value) *scanner.Scanner { return (*a[0].(*value)).(nativeObj).o.(*scanner.Scanner) }
	ext["(*text/scanner.Scanner).Init"] = func(fr *frame, a []value) value {
		data := readAllValues(fr, a[1].(iface))
		bs := make([]byte, len(data))
		for k, e := range data {
			bs[k] = fr.concrete(e, "scanner").(uint8)
		}
		s := &scanner.Scanner{}
		s.Init(bytes.NewReader(bs))
		s.Error = func(s *scanner.Scanner, msg string) {}
		*a[0].(*value) = nativeObj{s}
		return a[0]
	}
	ext["(*text/scanner.Scanner).Scan"] = func(fr *frame, a []value) value { return int32(sc(a).Scan()) }
	ext["(*text/scanner.Scanner).TokenText"] = func(fr *frame, a []value) value { return sc(a).TokenText() }
	ext["(*text/scanner.Scanner).Pos"] = func(fr *frame, a []value) value {
		p := sc(a).Pos()
		return structure{p.Filename, p.Offset, p.Line, p.Column}
	}
	ext["(text/scanner.Position).String"] = func(fr *frame, a []value) value {
		s := a[0].(structure)
		p := scanner.Position{Filename: s[0].(string), Offset: s[1].(int), Line: s[2].(int), Column: s[3].(int)}
		return p.String()
	}
	ext["(*text/scanner.Position).String"] = func(fr *frame, a []value) value {
		s := (*a[0].(*value)).(structure)
		p := scanner.Position{Filename: s[0].(string), Offset: s[1].(int), Line: s[2].(int), Column: s[3].(int)}
		return p.String()
	}
	// ---- strings.Builder (interpreted struct {addr, buf}) ----
	sbuf := func(a []value) *value { return &(*a[0].(*value)).(structure)[1] }
	ext["(*strings.Builder).Write"] = func(fr *frame, a []value) value {
		b := sbuf(a)
		bs, _ := (*b).([]value)
		p := a[1].([]value)
		*b = append(bs, p...)
		return tuple{len(p), iface{}}
	}
	ext["(*strings.Builder).WriteString"] = func(fr *frame, a []value) value {
		b := sbuf(a)
		bs, _ := (*b).([]value)
		switch sv := a[1].(type) {
		case string:
			*b = append(bs, strValues(sv)...)
			return tuple{len(sv), iface{}}
		case symString:
			*b = append(bs, sv.b...)
			return tuple{len(sv.b), iface{}}
		}
		panic("WriteString: bad argument")
	}
	ext["(*strings.Builder).WriteByte"] = func(fr *frame, a []value) value {
		b := sbuf(a)
		bs, _ := (*b).([]value)
		*b = append(bs, a[1])
		return iface{}
	}
	ext["(*strings.Builder).WriteRune"] = func(fr *frame, a []value) value {
		b := sbuf(a)
		bs, _ := (*b).([]value)
		r := fr.concrete(a[1], "WriteRune").(int32)
		str := string(r)
		*b = append(bs, strValues(str)...)
		return tuple{len(str), iface{}}
	}
	ext["(*strings.Builder).String"] = func(fr *frame, a []value) value {
		bs, _ := (*sbuf(a)).([]value)
		return symString{append([]value(nil), bs...)}.norm()
	}
	ext["(*strings.Builder).Len"] = func(fr *frame, a []value) value {
		bs, _ := (*sbuf(a)).([]value)
		return len(bs)
	}
	ext["(*strings.Builder).Reset"] = func(fr *frame, a []value) value {
		*sbuf(a) = []value(nil)
		return nil
	}
	ext["(*strings.Builder).Grow"] = func(fr *frame, a []value) value { return nil }
	// ---- time ----
	ext["time.NewTicker"] = func(fr *frame, a []value) value {
		ch := fr.i.sched.newChan(1, nil)
		ch.never = true
		var s value = structure{ch, nil, false}
		return &s
	}
	ext["(*time.Ticker).Stop"] = func(fr *frame, a []value) value { return nil }
	ext["time.Now"] = func(fr *frame, a []value) value { return structure{uint64(0), int64(0), (*value)(nil)} }
	ext["time.Since"] = func(fr *frame, a []value) value { return int64(0) }
	ext["(time.Duration).Seconds"] = func(fr *frame, a []value) value { return float64(0) }
}

// ---- flag / os models (C19) ----

type flagState struct {
	names []string
	ptrs  map[string]*value
	usage map[string]string
	args  []string
}

func (i *interpreter) flagSet() *flagState {
	if i.flags == nil {
		i.flags = &flagState{ptrs: map[string]*value{}, usage: map[string]string{}}
	}
	return i.flags
}

func init() {
	ext := externals
	ext["flag.BoolVar"] = func(fr *frame, a []value) value {
		fs := fr.i.flagSet()
		name := cstr(fr, a[1])
		p := a[0].(*value)
		*p = a[2]
		fs.names = append(fs.names, name)
		fs.ptrs[name] = p
		fs.usage[name] = cstr(fr, a[3])
		return nil
	}
	ext["flag.Parse"] = func(fr *frame, a []value) value {
		fs := fr.i.flagSet()
		var args []string
		for k, x := range fr.i.osArgs {
			if k > 0 {
				args = append(args, x.(string))
			}
		}
		for len(args) > 0 {
			s := args[0]
			if len(s) < 2 || s[0] != '-' {
				break
			}
			args = args[1:]
			if s == "--" {
				break
			}
			name := strings.TrimLeft(s, "-")
			val := "true"
			if eq := strings.Index(name, "="); eq >= 0 {
				name, val = name[:eq], name[eq+1:]
			}
			p, ok := fs.ptrs[name]
			if !ok {
				fmt.Fprintf(&fr.i.path.errOut, "flag provided but not defined: -%s\n", name)
				panic(exitPanic(2))
			}
			b, err := strconv.ParseBool(val)
			if err != nil {
				fmt.Fprintf(&fr.i.path.errOut, "invalid boolean value %q for -%s\n", val, name)
				panic(exitPanic(2))
			}
			*p = b
		}
		fs.args = args
		return nil
	}
	ext["flag.Args"] = func(fr *frame, a []value) value { return valStrs(fr.i.flagSet().args) }
	ext["flag.NArg"] = func(fr *frame, a []value) value { return len(fr.i.flagSet().args) }
	ext["flag.PrintDefaults"] = func(fr *frame, a []value) value {
		fs := fr.i.flagSet()
		names := append([]string(nil), fs.names...)
		sort.Strings(names)
		for _, n := range names {
			fmt.Fprintf(&fr.i.path.errOut, "  -%s\n    \t%s\n", n, fs.usage[n])
		}
		return nil
	}
	ext["os.Exit"] = func(fr *frame, a []value) value {
		panic(exitPanic(int(asInt64(fr.concrete(a[0], "os.Exit")))))
	}
	ext["os.Open"] = func(fr *frame, a []value) value {
		name := cstr(fr, a[0])
		content, ok := fr.i.files[name]
		if !ok {
			return tuple{(*value)(nil), fr.i.P.mkError("open " + name + ": no such file or directory")}
		}
		return tuple{ptrTo(nativeObj{&vfile{name: name, data: strValues(content)}}), iface{}}
	}
	ext["(*os.File).Close"] = func(fr *frame, a []value) value { return iface{} }
}

func (i *interpreter) eof() value {
	for _, p := range i.prog.AllPackages() {
		if p.Pkg.Path() == "io" {
			if g, ok := p.Members["EOF"].(*ssa.Global); ok {
				if c, ok := i.globals[g]; ok {
					return *c
				}
				return *i.lazyGlobal(g)
			}
		}
	}
	return i.P.mkError("EOF")
}

// decideEqByte decides whether a (possibly symbolic) byte equals c.
func (fr *frame) decideEqByte(b value, c uint8, site string) bool {
	switch b := b.(type) {
	case uint8:
		return b == c
	case sym:
		return fr.i.path.Branch(mkBin(OEq, b.t, mkConst(8, uint64(c))), "native:"+site)
	}
	panic(fmt.Sprintf("decideEqByte: %T", b))
}

// callNativeMethod dispatches an interface method call on a native object.
func callNativeMethod(i *interpreter, fr *frame, m *nativeMethod, args []value) value {
	switch o := m.obj.o.(type) {
	case *stdStream:
		if m.name == "Write" {
			bs := args[1].([]value)
			b := make([]byte, len(bs))
			for k, e := range bs {
				b[k] = fr.concrete(e, "Write").(uint8)
			}
			o.Write(b)
			return tuple{len(b), iface{}}
		}
	}
	panic(engineError{fmt.Sprintf("native method %s on %T not modelled", m.name, m.obj.o)})
}
