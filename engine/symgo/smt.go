package interp

// A persistent SMT solver child process driven over SMT-LIB2 text.

import (
	"bufio"
	"fmt"
	"io"
	"os"
	"os/exec"
	"strconv"
	"strings"
	"time"
)

type SolverKind int

const (
	SolverZ3New SolverKind = iota // default: z3 5.1.0 is ~8x faster than 4.8.12 on incremental BV queries
	SolverZ3
	SolverCVC5
)

func (k SolverKind) String() string {
	switch k {
	case SolverZ3:
		return "z3-4.8.12"
	case SolverZ3New:
		return "z3-new-5.1.0"
	case SolverCVC5:
		return "cvc5-1.0"
	}
	return "?"
}

type Solver struct {
	recycledAt int // value of Queries when this process was started
	sent       int // bytes written to this process
	paths      int // paths run on this process
	kind       SolverKind
	cmd        *exec.Cmd
	in         io.WriteCloser
	out        *bufio.Reader
	timeoutMs  int
	Queries    int
	Time       time.Duration
	log        io.Writer // optional transcript
	dead       bool
}

func NewSolver(kind SolverKind, timeoutMs int) (*Solver, error) {
	var cmd *exec.Cmd
	switch kind {
	case SolverZ3:
		cmd = exec.Command("/usr/bin/z3", "-in", "-smt2")
	case SolverZ3New:
		cmd = exec.Command("z3-new", "-in", "-smt2")
	case SolverCVC5:
		cmd = exec.Command("cvc5", "--incremental", "--produce-models", "--lang=smt2", fmt.Sprintf("--tlimit-per=%d", timeoutMs))
	}
	in, err := cmd.StdinPipe()
	if err != nil {
		return nil, err
	}
	outp, err := cmd.StdoutPipe()
	if err != nil {
		return nil, err
	}
	cmd.Stderr = cmd.Stdout
	if err := cmd.Start(); err != nil {
		return nil, err
	}
	s := &Solver{kind: kind, cmd: cmd, in: in, out: bufio.NewReaderSize(outp, 1<<16), timeoutMs: timeoutMs}
	if lf := os.Getenv("VP_SMTLOG"); lf != "" {
		f, err := os.OpenFile(fmt.Sprintf("%s.%d", lf, cmd.Process.Pid), os.O_CREATE|os.O_WRONLY|os.O_TRUNC, 0644)
		if err == nil {
			s.log = f
		}
	}
	s.send("(set-option :produce-models true)\n")
	if kind != SolverCVC5 {
		s.send(fmt.Sprintf("(set-option :timeout %d)\n", timeoutMs))
	} else {
		s.send("(set-logic ALL)\n")
	}
	return s, nil
}

func (s *Solver) Close() {
	if s == nil || s.dead {
		return
	}
	s.dead = true
	s.in.Close()
	s.cmd.Process.Kill()
	s.cmd.Wait()
}

func (s *Solver) send(txt string) {
	if s.log != nil {
		io.WriteString(s.log, txt)
	}
	s.sent += len(txt)
	if _, err := io.WriteString(s.in, txt); err != nil {
		panic(engineError{"solver pipe write: " + err.Error()})
	}
}

func (s *Solver) readLine() string {
	line, err := s.out.ReadString('\n')
	if err != nil {
		panic(engineError{"solver pipe read: " + err.Error()})
	}
	line = strings.TrimSpace(line)
	if s.log != nil {
		fmt.Fprintf(s.log, "; <- %s\n", line)
	}
	return line
}

// CheckSat returns "sat", "unsat" or "unknown". Any (error line makes the
// answer "error".
func (s *Solver) CheckSat() string {
	t0 := time.Now()
	s.send("(check-sat)\n")
	var res string
	for {
		line := s.readLine()
		if line == "" {
			continue
		}
		if strings.HasPrefix(line, "(error") {
			res = "error:" + line
			break
		}
		if line == "sat" || line == "unsat" || line == "unknown" || line == "timeout" {
			res = line
			if line == "timeout" {
				res = "unknown"
			}
			break
		}
		// unexpected output: keep reading but remember
		res = "error:unexpected " + line
		break
	}
	s.Queries++
	s.Time += time.Since(t0)
	return res
}

// readSexp reads one balanced s-expression from the solver.
func (s *Solver) readSexp() string {
	var sb strings.Builder
	depth := 0
	started := false
	for {
		line := s.readLine()
		if line == "" && !started {
			continue
		}
		sb.WriteString(line)
		sb.WriteString(" ")
		for _, c := range line {
			if c == '(' {
				depth++
				started = true
			} else if c == ')' {
				depth--
			}
		}
		if started && depth <= 0 {
			break
		}
		if !started {
			break
		}
	}
	return sb.String()
}

// GetValues returns the model values of the given variables.
func (s *Solver) GetValues(vars []*Term, asInt bool) (map[string]uint64, error) {
	m := make(map[string]uint64, len(vars))
	if len(vars) == 0 {
		return m, nil
	}
	var sb strings.Builder
	sb.WriteString("(get-value (")
	for _, v := range vars {
		if asInt && v.w > 0 {
			sb.WriteString(intName(v))
		} else {
			sb.WriteString(v.name)
		}
		sb.WriteString(" ")
	}
	sb.WriteString("))\n")
	s.send(sb.String())
	txt := s.readSexp()
	if strings.Contains(txt, "(error") {
		return nil, fmt.Errorf("get-value: %s", txt)
	}
	// parse ((name value) (name value) ...)
	toks := tokenize(txt)
	// expect: ( ( name val ) ( name val ) ... )
	i := 0
	if i < len(toks) && toks[i] == "(" {
		i++
	}
	for i < len(toks) && toks[i] == "(" {
		i++
		if i >= len(toks) {
			break
		}
		name := toks[i]
		i++
		// value: either atom, or ( _ bvN w )
		var val uint64
		if toks[i] == "(" && i+2 < len(toks) && toks[i+1] == "-" {
			// (- N)
			u, err := strconv.ParseUint(toks[i+2], 10, 64)
			if err != nil {
				return nil, fmt.Errorf("bad value %q", toks[i+2])
			}
			val = uint64(-int64(u))
			i += 4
		} else if toks[i] == "(" {
			// (_ bvN w)
			j := i
			for j < len(toks) && toks[j] != ")" {
				j++
			}
			for _, tk := range toks[i:j] {
				if strings.HasPrefix(tk, "bv") {
					u, err := strconv.ParseUint(tk[2:], 10, 64)
					if err == nil {
						val = u
					}
				}
			}
			i = j + 1
		} else {
			tk := toks[i]
			i++
			switch {
			case tk == "true":
				val = 1
			case tk == "false":
				val = 0
			case strings.HasPrefix(tk, "#x"):
				u, err := strconv.ParseUint(tk[2:], 16, 64)
				if err != nil {
					return nil, fmt.Errorf("bad value %q", tk)
				}
				val = u
			case strings.HasPrefix(tk, "#b"):
				u, err := strconv.ParseUint(tk[2:], 2, 64)
				if err != nil {
					return nil, fmt.Errorf("bad value %q", tk)
				}
				val = u
			default:
				u, err := strconv.ParseUint(tk, 10, 64)
				if err != nil {
					return nil, fmt.Errorf("unparsed value %q in %s", tk, txt)
				}
				val = u
			}
		}
		if i < len(toks) && toks[i] == ")" {
			i++
		}
		m[strings.TrimSuffix(name, "!i")] = val
	}
	if len(m) != len(vars) {
		return nil, fmt.Errorf("get-value: expected %d values, got %d: %s", len(vars), len(m), txt)
	}
	return m, nil
}

func tokenize(s string) []string {
	var toks []string
	cur := strings.Builder{}
	flush := func() {
		if cur.Len() > 0 {
			toks = append(toks, cur.String())
			cur.Reset()
		}
	}
	inBar := false
	for _, c := range s {
		if inBar {
			cur.WriteRune(c)
			if c == '|' {
				inBar = false
			}
			continue
		}
		switch c {
		case '|':
			cur.WriteRune(c)
			inBar = true
		case '(', ')':
			flush()
			toks = append(toks, string(c))
		case ' ', '\t', '\n', '\r':
			flush()
		default:
			cur.WriteRune(c)
		}
	}
	flush()
	return toks
}

type engineError struct{ msg string }

func (e engineError) Error() string { return "engine error: " + e.msg }
