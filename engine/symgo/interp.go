// Copyright 2013 The Go Authors. All rights reserved.
// Use of this source code is governed by a BSD-style
// license that can be found in the LICENSE file.

// Package interp is symgo: a symbolic interpreter for go/ssa, forked from
// golang.org/x/tools/go/ssa/interp (v0.29.0). Scalars may be symbolic SMT
// terms; every branch on a symbolic condition is decided by an SMT solver;
// paths are explored by re-execution with a decision log (explore.go).
package interp

import (
	"fmt"
	"go/token"
	"go/types"
	"runtime"
	"slices"
	"strconv"
	"strings"

	"golang.org/x/tools/go/ssa"
)

type continuation int

const (
	kNext continuation = iota
	kReturn
	kJump
)

type ssaFunction = ssa.Function

type methodSet map[string]*ssa.Function

// State of one path execution (shared between its interpreted goroutines).
type interpreter struct {
	P                  *Program
	prog               *ssa.Program
	globals            map[*ssa.Global]*value
	runtimeErrorString types.Type
	sizes              types.Sizes
	path               *Path
	sched              *scheduler
	observers          map[string][]value // function name -> harness callbacks (entry)
	observersRet       map[string][]value
	inObserver         bool
	files              map[string]string // virtual file system (C19)
	osArgs             []value
	flags              *flagState
	exitCode           int
	mapOrder           int
}

type deferred struct {
	fn    value
	args  []value
	instr *ssa.Defer
	tail  *deferred
}

type frame struct {
	i                *interpreter
	g                *goroutine
	caller           *frame
	fn               *ssa.Function
	block, prevBlock *ssa.BasicBlock
	env              map[ssa.Value]value // dynamic values of SSA variables
	locals           []value
	defers           *deferred
	result           value
	panicking        bool
	panic            interface{}
	phitemps         []value // temporaries for parallel phi assignment
}

func mustDeref(t types.Type) types.Type {
	if p, ok := t.Underlying().(*types.Pointer); ok {
		return p.Elem()
	}
	panic(fmt.Sprintf("mustDeref: %v is not a pointer", t))
}

func (fr *frame) get(key ssa.Value) value {
	switch key := key.(type) {
	case nil:
		return nil
	case *ssa.Function, *ssa.Builtin:
		return key
	case *ssa.Const:
		return constValue(key)
	case *ssa.Global:
		if r, ok := fr.i.globals[key]; ok {
			return r
		}
		return fr.i.lazyGlobal(key)
	}
	if r, ok := fr.env[key]; ok {
		return r
	}
	panic(fmt.Sprintf("get: no value for %T: %v", key, key.Name()))
}

func (fr *frame) site(instr ssa.Instruction) string {
	b := instr.Block()
	idx := 0
	for k, in := range b.Instrs {
		if in == instr {
			idx = k
			break
		}
	}
	return fr.fn.String() + "#" + strconv.Itoa(b.Index) + "." + strconv.Itoa(idx)
}

// cond decides a (possibly symbolic) boolean.
func (fr *frame) decide(v value, site string) bool {
	switch v := v.(type) {
	case bool:
		return v
	case sym:
		return fr.i.path.Branch(v.t, site)
	}
	panic(fmt.Sprintf("decide: not a bool: %T", v))
}

// concrete returns a concrete version of scalar v, forking over its values.
func (fr *frame) concrete(v value, site string) value {
	if s, ok := v.(sym); ok {
		bits := fr.i.path.Concretize(s.t, site)
		return concreteOf(s.k, bits)
	}
	return v
}

// concreteDeep concretises all symbolic scalars inside v (in place for
// aggregates that are values; slices/pointers are followed).
func (fr *frame) concreteDeep(v value, site string) value {
	switch x := v.(type) {
	case sym:
		return fr.concrete(x, site)
	case structure:
		for i := range x {
			x[i] = fr.concreteDeep(x[i], site)
		}
		return x
	case array:
		for i := range x {
			x[i] = fr.concreteDeep(x[i], site)
		}
		return x
	case []value:
		for i := range x {
			x[i] = fr.concreteDeep(x[i], site)
		}
		return x
	case iface:
		x.v = fr.concreteDeep(x.v, site)
		return x
	case tuple:
		for i := range x {
			x[i] = fr.concreteDeep(x[i], site)
		}
		return x
	case *value:
		if x != nil {
			switch (*x).(type) {
			case sym, structure, array, iface:
				*x = fr.concreteDeep(*x, site)
			}
		}
		return x
	}
	return v
}

func rtPanic(msg string) {
	panic(targetPanic{v: runtimeErr(msg)})
}

type runtimeErr string

// checkIndex handles bounds checking for a (possibly symbolic) index and
// returns the concrete index.
func (fr *frame) checkIndex(idx value, n int, instr ssa.Instruction) int {
	if s, ok := idx.(sym); ok {
		site := fr.site(instr)
		inb := mkInRange(s, int64(n))
		if !fr.i.path.Branch(inb, site+"/b") {
			rtPanic(fmt.Sprintf("index out of range [symbolic] with length %d", n))
		}
		idx = fr.concrete(s, site+"/i")
	}
	k := asInt64(idx)
	if _, isUnsigned := asUnsignedKind(idx); isUnsigned {
		if uint64(k) >= uint64(n) {
			rtPanic(fmt.Sprintf("index out of range [%d] with length %d", uint64(k), n))
		}
	}
	if k < 0 || k >= int64(n) {
		rtPanic(fmt.Sprintf("index out of range [%d] with length %d", k, n))
	}
	return int(k)
}

func asUnsignedKind(x value) (types.BasicKind, bool) {
	switch x.(type) {
	case uint:
		return types.Uint, true
	case uint64:
		return types.Uint64, true
	case uintptr:
		return types.Uintptr, true
	}
	return 0, false
}

// mkInRange builds 0 <= s < n for a symbolic integer of any kind.
func mkInRange(s sym, n int64) *Term {
	w := s.t.w
	if kindSigned(s.k) {
		return mkAnd(mkBin(OSle, mkConst(w, 0), s.t), mkBin(OSlt, s.t, mkConst(w, uint64(n))))
	}
	if w < 64 && n > int64(mask(w)) {
		return termTrue
	}
	return mkBin(OUlt, s.t, mkConst(w, uint64(n)))
}

// runDefer runs a deferred call d.
// It always returns normally, but may set or clear fr.panic.
func (fr *frame) runDefer(d *deferred) {
	var ok bool
	defer func() {
		if !ok {
			// Deferred call created a new state of panic.
			r := recover()
			if isAbort(r) {
				panic(r)
			}
			fr.panicking = true
			fr.panic = r
		}
	}()
	call(fr.i, fr, d.instr.Pos(), d.fn, d.args)
	ok = true
}

func isAbort(r interface{}) bool {
	switch r.(type) {
	case pathAbort, engineError, killGoroutine, exitPanic:
		return true
	}
	return false
}

func (fr *frame) runDefers() {
	for d := fr.defers; d != nil; d = d.tail {
		fr.runDefer(d)
	}
	fr.defers = nil
	if fr.panicking {
		panic(fr.panic) // new panic, or still panicking
	}
}

func lookupMethod(i *interpreter, typ types.Type, meth *types.Func) *ssa.Function {
	return i.prog.LookupMethod(typ, meth.Pkg(), meth.Name())
}

// visitInstr interprets a single ssa.Instruction within the activation
// record frame.  It returns a continuation value indicating where to
// read the next instruction from.
func visitInstr(fr *frame, instr ssa.Instruction) continuation {
	switch instr := instr.(type) {
	case *ssa.DebugRef:
		// no-op

	case *ssa.UnOp:
		x := fr.get(instr.X)
		switch instr.Op {
		case token.ARROW:
			fr.env[instr] = fr.i.sched.recv(fr, instr, x)
		case token.MUL:
			fr.env[instr] = fr.loadPtr(mustDeref(instr.X.Type()), x, instr)
		default:
			if s, ok := x.(sym); ok {
				fr.env[instr] = symUnop(instr.Op, s)
			} else {
				fr.env[instr] = unop(instr, x)
			}
		}

	case *ssa.BinOp:
		x, y := fr.get(instr.X), fr.get(instr.Y)
		fr.env[instr] = fr.binop(instr, x, y)

	case *ssa.Call:
		fn, args := prepareCall(fr, &instr.Call)
		fr.env[instr] = call(fr.i, fr, instr.Pos(), fn, args)

	case *ssa.ChangeInterface:
		fr.env[instr] = fr.get(instr.X)

	case *ssa.ChangeType:
		fr.env[instr] = fr.get(instr.X) // (can't fail)

	case *ssa.Convert:
		x := fr.get(instr.X)
		if s, ok := x.(sym); ok {
			if b, ok := instr.Type().Underlying().(*types.Basic); ok && b.Info()&types.IsInteger != 0 {
				fr.env[instr] = symConvInt(b.Kind(), s)
				break
			}
			x = fr.concrete(s, fr.site(instr))
		}
		fr.env[instr] = conv(instr.Type(), instr.X.Type(), fr.concreteIfSlice(x, instr))

	case *ssa.SliceToArrayPointer:
		fr.env[instr] = sliceToArrayPointer(instr.Type(), instr.X.Type(), fr.get(instr.X))

	case *ssa.MakeInterface:
		fr.env[instr] = iface{t: instr.X.Type(), v: fr.get(instr.X)}

	case *ssa.Extract:
		fr.env[instr] = fr.get(instr.Tuple).(tuple)[instr.Index]

	case *ssa.Slice:
		fr.env[instr] = fr.slice(instr, fr.get(instr.X), fr.get(instr.Low), fr.get(instr.High), fr.get(instr.Max))

	case *ssa.Return:
		switch len(instr.Results) {
		case 0:
		case 1:
			fr.result = fr.get(instr.Results[0])
		default:
			var res []value
			for _, r := range instr.Results {
				res = append(res, fr.get(r))
			}
			fr.result = tuple(res)
		}
		fr.block = nil
		return kReturn

	case *ssa.RunDefers:
		fr.runDefers()

	case *ssa.Panic:
		panic(targetPanic{fr.get(instr.X)})

	case *ssa.Send:
		fr.i.sched.send(fr, fr.get(instr.Chan), fr.get(instr.X))

	case *ssa.Store:
		fr.storePtr(mustDeref(instr.Addr.Type()), fr.get(instr.Addr), fr.get(instr.Val), instr)

	case *ssa.If:
		succ := 1
		c := fr.get(instr.Cond)
		var b bool
		if cb, ok := c.(bool); ok {
			b = cb
		} else {
			b = fr.decide(c, fr.site(instr))
		}
		if b {
			succ = 0
		}
		fr.prevBlock, fr.block = fr.block, fr.block.Succs[succ]
		return kJump

	case *ssa.Jump:
		fr.prevBlock, fr.block = fr.block, fr.block.Succs[0]
		return kJump

	case *ssa.Defer:
		fn, args := prepareCall(fr, &instr.Call)
		defers := &fr.defers
		if into := fr.get(instr.DeferStack); into != nil {
			defers = into.(**deferred)
		}
		*defers = &deferred{
			fn:    fn,
			args:  args,
			instr: instr,
			tail:  *defers,
		}

	case *ssa.Go:
		fn, args := prepareCall(fr, &instr.Call)
		fr.i.sched.spawn(fr, instr, fn, args)

	case *ssa.MakeChan:
		sz := fr.concrete(fr.get(instr.Size), fr.site(instr))
		n := asInt64(sz)
		if n < 0 {
			rtPanic("makechan: size out of range")
		}
		fr.env[instr] = fr.i.sched.newChan(int(n), instr.Type().Underlying().(*types.Chan).Elem())

	case *ssa.Alloc:
		var addr *value
		if instr.Heap {
			// new
			addr = new(value)
			fr.env[instr] = addr
		} else {
			// local
			addr = fr.env[instr].(*value)
		}
		*addr = zero(mustDeref(instr.Type()))

	case *ssa.MakeSlice:
		site := fr.site(instr)
		c := asInt64(fr.concrete(fr.get(instr.Cap), site+"/c"))
		l := asInt64(fr.concrete(fr.get(instr.Len), site+"/l"))
		if l < 0 || l > 1<<24 {
			rtPanic("makeslice: len out of range")
		}
		if c < l || c > 1<<24 {
			rtPanic("makeslice: cap out of range")
		}
		slice := make([]value, c)
		tElt := instr.Type().Underlying().(*types.Slice).Elem()
		fillZero(slice, tElt)
		fr.env[instr] = slice[:l]

	case *ssa.MakeMap:
		fr.env[instr] = makeMap(instr.Type().Underlying().(*types.Map).Key(), 0)

	case *ssa.Range:
		fr.env[instr] = fr.rangeIter(fr.get(instr.X), instr)

	case *ssa.Next:
		fr.env[instr] = fr.get(instr.Iter).(iter).next()

	case *ssa.FieldAddr:
		p := fr.get(instr.X).(*value)
		if p == nil {
			rtPanic("invalid memory address or nil pointer dereference")
		}
		fr.env[instr] = &(*p).(structure)[instr.Field]

	case *ssa.Field:
		fr.env[instr] = fr.get(instr.X).(structure)[instr.Field]

	case *ssa.IndexAddr:
		x := fr.get(instr.X)
		idx := fr.get(instr.Index)
		switch x := x.(type) {
		case []value:
			fr.env[instr] = &x[fr.checkIndex(idx, len(x), instr)]
		case *value: // *array
			if x == nil {
				rtPanic("invalid memory address or nil pointer dereference")
			}
			a := (*x).(array)
			fr.env[instr] = &a[fr.checkIndex(idx, len(a), instr)]
		default:
			panic(fmt.Sprintf("unexpected x type in IndexAddr: %T", x))
		}

	case *ssa.Index:
		x := fr.get(instr.X)
		idx := fr.get(instr.Index)

		switch x := x.(type) {
		case array:
			fr.env[instr] = x[fr.checkIndex(idx, len(x), instr)]
		case string:
			fr.env[instr] = x[fr.checkIndex(idx, len(x), instr)]
		case symString:
			fr.env[instr] = x.b[fr.checkIndex(idx, len(x.b), instr)]
		default:
			panic(fmt.Sprintf("unexpected x type in Index: %T", x))
		}

	case *ssa.Lookup:
		x := fr.get(instr.X)
		idx := fr.get(instr.Index)
		switch xs := x.(type) {
		case string:
			fr.env[instr] = xs[fr.checkIndex(idx, len(xs), instr)]
		case symString:
			fr.env[instr] = xs.b[fr.checkIndex(idx, len(xs.b), instr)]
		default:
			idx = fr.concreteDeep(idx, fr.site(instr))
			fr.env[instr] = lookup(instr, x, idx)
		}

	case *ssa.MapUpdate:
		m := fr.get(instr.Map)
		key := fr.concreteDeep(fr.get(instr.Key), fr.site(instr))
		v := fr.get(instr.Value)
		om := m.(*omap)
		if om == nil {
			rtPanic("assignment to entry in nil map")
		}
		om.insert(key, v)

	case *ssa.TypeAssert:
		fr.env[instr] = typeAssert(fr.i, instr, fr.get(instr.X).(iface))

	case *ssa.MakeClosure:
		var bindings []value
		for _, binding := range instr.Bindings {
			bindings = append(bindings, fr.get(binding))
		}
		fr.env[instr] = &closure{instr.Fn.(*ssa.Function), bindings}

	case *ssa.Phi:
		panic("unreachable: phi") // phis are processed at block entry

	case *ssa.Select:
		fr.env[instr] = fr.i.sched.selectOp(fr, instr)

	default:
		panic(fmt.Sprintf("unexpected instruction: %T", instr))
	}
	return kNext
}

func fillZero(s []value, t types.Type) {
	if len(s) == 0 {
		return
	}
	switch t.Underlying().(type) {
	case *types.Struct, *types.Array:
		for i := range s {
			s[i] = zero(t)
		}
	default:
		z := zero(t)
		for i := range s {
			s[i] = z
		}
	}
}

// concreteIfSlice concretises []byte contents before string conversion.
func (fr *frame) concreteIfSlice(x value, instr *ssa.Convert) value {
	if s, ok := x.([]value); ok {
		if _, isStr := instr.Type().Underlying().(*types.Basic); isStr {
			anySym := false
			for _, e := range s {
				if isSym(e) {
					anySym = true
				}
			}
			if anySym {
				c := make([]value, len(s))
				site := fr.site(instr)
				for i, e := range s {
					c[i] = fr.concrete(e, site)
				}
				return c
			}
		}
	}
	return x
}

func (fr *frame) loadPtr(T types.Type, x value, instr ssa.Instruction) value {
	p, ok := x.(*value)
	if !ok {
		panic(fmt.Sprintf("load through non-pointer %T", x))
	}
	if p == nil {
		rtPanic("invalid memory address or nil pointer dereference")
	}
	if fr.i.sched.hb {
		fr.i.sched.access(fr, p, false, instr)
	}
	return load(T, p)
}

func (fr *frame) storePtr(T types.Type, x value, v value, instr ssa.Instruction) {
	p, ok := x.(*value)
	if !ok {
		panic(fmt.Sprintf("store through non-pointer %T", x))
	}
	if p == nil {
		rtPanic("invalid memory address or nil pointer dereference")
	}
	if fr.i.sched.hb {
		fr.i.sched.access(fr, p, true, instr)
	}
	store(T, p, v)
}

func (fr *frame) binop(instr *ssa.BinOp, x, y value) value {
	op := instr.Op
	switch op {
	case token.QUO, token.REM:
		if _, isInt := kindOf(y); isInt {
			if s, ok := y.(sym); ok {
				z := mkBin(OEq, s.t, mkConst(s.t.w, 0))
				if fr.i.path.Branch(z, fr.site(instr)) {
					rtPanic("integer divide by zero")
				}
			} else if asInt64(y) == 0 {
				rtPanic("integer divide by zero")
			}
		}
	case token.SHL, token.SHR:
		if s, ok := y.(sym); ok {
			if kindSigned(s.k) {
				neg := mkBin(OSlt, s.t, mkConst(s.t.w, 0))
				if fr.i.path.Branch(neg, fr.site(instr)) {
					rtPanic("negative shift amount")
				}
			}
		} else if _, ok := asUnsigned(y); !ok {
			rtPanic("negative shift amount")
		}
	case token.EQL:
		if hasSym(x) || hasSym(y) {
			return equalsV(instr.X.Type(), x, y)
		}
	case token.NEQ:
		if hasSym(x) || hasSym(y) {
			return notV(equalsV(instr.X.Type(), x, y))
		}
	case token.ADD:
		// string concatenation with symbolic strings
		if _, ok := x.(symString); ok {
			return concatSymString(x, y)
		}
		if _, ok := y.(symString); ok {
			return concatSymString(x, y)
		}
	}
	if isSym(x) || isSym(y) {
		return symBinop(op, x, y)
	}
	return binop(op, instr.X.Type(), x, y)
}

func (fr *frame) slice(instr *ssa.Slice, x, lo, hi, max value) value {
	site := fr.site(instr)
	var Len, Cap int
	switch xv := x.(type) {
	case string:
		Len = len(xv)
		Cap = Len
	case symString:
		Len = len(xv.b)
		Cap = Len
	case []value:
		Len = len(xv)
		Cap = cap(xv)
	case *value: // *array
		if xv == nil {
			rtPanic("invalid memory address or nil pointer dereference")
		}
		a := (*xv).(array)
		Len = len(a)
		Cap = cap(a)
	}
	get := func(v value, def int, tag string) int64 {
		if v == nil {
			return int64(def)
		}
		if s, ok := v.(sym); ok {
			inb := mkInRange(s, int64(Cap)+1)
			if !fr.i.path.Branch(inb, site+tag+"b") {
				rtPanic("slice bounds out of range [symbolic]")
			}
			v = fr.concrete(s, site+tag)
		}
		return asInt64(v)
	}
	l := get(lo, 0, "/lo")
	h := get(hi, Len, "/hi")
	m := get(max, Cap, "/max")
	if _, isStr := x.(string); isStr || isSymString(x) {
		if l < 0 || h < l || h > int64(Len) {
			rtPanic(fmt.Sprintf("slice bounds out of range [%d:%d] with length %d", l, h, Len))
		}
	} else if l < 0 || h < l || m < h || m > int64(Cap) {
		rtPanic(fmt.Sprintf("slice bounds out of range [%d:%d:%d] with capacity %d", l, h, m, Cap))
	}
	switch xv := x.(type) {
	case string:
		return xv[l:h]
	case symString:
		return symString{xv.b[l:h]}.norm()
	case []value:
		return xv[l:h:m]
	case *value: // *array
		a := (*xv).(array)
		return []value(a)[l:h:m]
	}
	panic(fmt.Sprintf("slice: unexpected X type: %T", x))
}

// prepareCall determines the function value and argument values for a
// function call in a Call, Go or Defer instruction, performing
// interface method lookup if needed.
func prepareCall(fr *frame, call *ssa.CallCommon) (fn value, args []value) {
	v := fr.get(call.Value)
	if call.Method == nil {
		// Function call.
		fn = v
	} else {
		// Interface method invocation.
		recv := v.(iface)
		if recv.t == nil {
			rtPanic("invalid memory address or nil pointer dereference (method invoked on nil interface)")
		}
		if nt, ok := nativeOf(recv.v); ok {
			fn = &nativeMethod{obj: nt, name: call.Method.Name()}
		} else if f := lookupMethod(fr.i, recv.t, call.Method); f == nil {
			// Unreachable in well-typed programs.
			panic(fmt.Sprintf("method set for dynamic type %v does not contain %s", recv.t, call.Method))
		} else {
			fn = f
		}
		args = append(args, recv.v)
	}
	for _, arg := range call.Args {
		args = append(args, fr.get(arg))
	}
	return
}

// call interprets a call to a function (function, builtin or closure)
// fn with arguments args, returning its result.
// callpos is the position of the callsite.
func call(i *interpreter, caller *frame, callpos token.Pos, fn value, args []value) value {
	switch fn := fn.(type) {
	case *ssa.Function:
		if fn == nil {
			rtPanic("invalid memory address or nil pointer dereference (call of nil function)")
		}
		return callSSA(i, caller, callpos, fn, args, nil)
	case *closure:
		return callSSA(i, caller, callpos, fn.Fn, args, fn.Env)
	case *ssa.Builtin:
		return callBuiltin(caller, callpos, fn, args)
	case *nativeMethod:
		return callNativeMethod(i, caller, fn, args)
	}
	panic(fmt.Sprintf("cannot call %T", fn))
}

func loc(fset *token.FileSet, pos token.Pos) string {
	if pos == token.NoPos {
		return ""
	}
	return " at " + fset.Position(pos).String()
}

// callSSA interprets a call to function fn with arguments args,
// and lexical environment env, returning its result.
func callSSA(i *interpreter, caller *frame, callpos token.Pos, fn *ssa.Function, args []value, env []value) value {
	fr := &frame{
		i:      i,
		caller: caller, // for panic/recover
		fn:     fn,
	}
	if caller != nil {
		fr.g = caller.g
	}
	if fn.Parent() == nil {
		if !i.P.interpreted(fn) {
			name := fn.String()
			if ext := externals[name]; ext != nil {
				return ext(fr, args)
			}
			if fn.Name() == "init" && fn.Signature.Recv() == nil {
				return nil // package initialiser of a non-target package
			}
			if !i.P.interpretable(fn) {
				panic(engineError{"missing external: " + name})
			}
		} else if ext := externals[fn.String()]; ext != nil {
			return ext(fr, args)
		}
		if fn.Blocks == nil {
			panic(engineError{"no code for function: " + fn.String()})
		}
	}
	if fn.TypeParams().Len() > 0 && len(fn.TypeArgs()) == 0 {
		panic("interp requires ssa.BuilderMode to include InstantiateGenerics to execute generics")
	}
	if i.observers != nil && !i.inObserver {
		if cbs := i.observers[fn.String()]; cbs != nil {
			i.inObserver = true
			for _, cb := range cbs {
				call(i, fr, callpos, cb, args)
			}
			i.inObserver = false
		}
	}
	i.path.enter(fn)

	fr.env = make(map[ssa.Value]value)
	fr.block = fn.Blocks[0]
	fr.locals = make([]value, len(fn.Locals))
	for i, l := range fn.Locals {
		fr.locals[i] = zero(mustDeref(l.Type()))
		fr.env[l] = &fr.locals[i]
	}
	for i, p := range fn.Params {
		fr.env[p] = args[i]
	}
	for i, fv := range fn.FreeVars {
		fr.env[fv] = env[i]
	}
	for fr.block != nil {
		runFrame(fr)
	}
	// Destroy the locals to avoid accidental use after return.
	for i := range fn.Locals {
		fr.locals[i] = bad{}
	}
	if i.observersRet != nil && !i.inObserver {
		if cbs := i.observersRet[fn.String()]; cbs != nil {
			i.inObserver = true
			for _, cb := range cbs {
				a := append([]value{}, args...)
				if t, ok := fr.result.(tuple); ok {
					a = append(a, t...)
				} else if fr.result != nil || fn.Signature.Results().Len() == 1 {
					a = append(a, fr.result)
				}
				call(i, fr, callpos, cb, a)
			}
			i.inObserver = false
		}
	}
	return fr.result
}

// runFrame executes SSA instructions starting at fr.block and
// continuing until a return, a panic, or a recovered panic.
func runFrame(fr *frame) {
	defer func() {
		if fr.block == nil {
			return // normal return
		}
		r := recover()
		if isAbort(r) {
			panic(r)
		}
		if re, ok := r.(runtime.Error); ok {
			// A Go run-time panic inside the interpreter is an engine crash,
			// never a verdict about the target.
			panic(engineError{fmt.Sprintf("interpreter crash in %s: %v\n%s", fr.fn, re, stackTrace())})
		}
		if s, ok := r.(string); ok {
			panic(engineError{fmt.Sprintf("interpreter panic in %s: %s\n%s", fr.fn, s, stackTrace())})
		}
		fr.panicking = true
		fr.panic = r
		fr.runDefers()
		fr.block = fr.fn.Recover
	}()

	p := fr.i.path
	for {
		nonPhis := executePhis(fr)
		p.instrs += len(nonPhis)
		if p.instrs > p.fuel {
			p.abort(OutFuel, "instruction budget of %d exhausted in %s", p.fuel, fr.fn)
		}
		for _, instr := range nonPhis {
			if visitInstr(fr, instr) == kReturn {
				return
			}
			// Inv: kNext (continue) or kJump (last instr)
		}
	}
}

func stackTrace() string {
	buf := make([]byte, 1<<14)
	n := runtime.Stack(buf, false)
	return string(buf[:n])
}

// executePhis executes the phi-nodes at the start of the current
// block and returns the non-phi instructions.
func executePhis(fr *frame) []ssa.Instruction {
	firstNonPhi := -1
	for i, instr := range fr.block.Instrs {
		if _, ok := instr.(*ssa.Phi); !ok {
			firstNonPhi = i
			break
		}
	}
	// Inv: 0 <= firstNonPhi; every block contains a non-phi.

	nonPhis := fr.block.Instrs[firstNonPhi:]
	if firstNonPhi > 0 {
		phis := fr.block.Instrs[:firstNonPhi]
		predIndex := slices.Index(fr.block.Preds, fr.prevBlock)
		fr.phitemps = fr.phitemps[:0]
		for _, phi := range phis {
			phi := phi.(*ssa.Phi)
			fr.phitemps = append(fr.phitemps, fr.get(phi.Edges[predIndex]))
		}
		for i, phi := range phis {
			fr.env[phi.(*ssa.Phi)] = fr.phitemps[i]
		}
	}
	return nonPhis
}

// doRecover implements the recover() built-in.
func doRecover(caller *frame) value {
	if caller != nil && !caller.panicking &&
		caller.caller != nil && caller.caller.panicking {
		caller.caller.panicking = false
		p := caller.caller.panic
		caller.caller.panic = nil

		switch p := p.(type) {
		case targetPanic:
			if re, ok := p.v.(runtimeErr); ok {
				return iface{caller.i.runtimeErrorString, "runtime error: " + string(re)}
			}
			return p.v
		default:
			panic(fmt.Sprintf("unexpected panic type %T in target call to recover()", p))
		}
	}
	return iface{}
}

// panicString renders the value of a target panic.
func (i *interpreter) panicString(fr *frame, p targetPanic) string {
	switch v := p.v.(type) {
	case runtimeErr:
		return "runtime error: " + string(v)
	case iface:
		if s, ok := v.v.(string); ok {
			return s
		}
		return nativeString(i, fr, v)
	}
	return toString(p.v)
}

// runHarness executes the harness function on a fresh interpreter state.
func runHarness(P *Program, p *Path, fn *ssa.Function) (out Outcome, msg string, stk string) {
	i := &interpreter{
		P:       P,
		prog:    P.prog,
		globals: make(map[*ssa.Global]*value, len(P.globals)),
		sizes:   P.sizes,
		path:    p,
	}
	i.runtimeErrorString = P.runtimeErrorString
	for _, g := range P.globals {
		cell := zero(mustDeref(g.Type()))
		i.globals[g] = &cell
	}
	i.sched = newScheduler(i)
	mainG := i.sched.main
	root := &frame{i: i, g: mainG}
	defer i.sched.killAll()
	defer func() {
		r := recover()
		if r == nil {
			return
		}
		switch r := r.(type) {
		case targetPanic:
			out = OutPanic
			msg = "panic: " + i.panicString(root, r)
		default:
			panic(r)
		}
	}()
	for _, pk := range P.initOrder {
		call(i, root, token.NoPos, pk.Func("init"), nil)
	}
	call(i, root, token.NoPos, fn, nil)
	return OutOK, "", ""
}

func (p *Path) enter(fn *ssa.Function) {
	if p.eng.cfg.Trace {
		fmt.Fprintf(&p.out, "[enter %s]\n", fn)
	}
	p.funcsSeen(fn)
}

func (p *Path) funcsSeen(fn *ssa.Function) {
	if p.seenFns == nil {
		p.seenFns = map[*ssa.Function]bool{}
	}
	if !p.seenFns[fn] {
		p.seenFns[fn] = true
	}
}

// lazyGlobal provides storage for the few non-target globals the target reads.
func (i *interpreter) lazyGlobal(g *ssa.Global) *value {
	name := g.Pkg.Pkg.Path() + "." + g.Name()
	var v value
	switch name {
	case "io.EOF":
		v = i.P.mkError("EOF")
	case "os.Stdout":
		v = ptrTo(nativeObj{&stdStream{i: i, fd: 1}})
	case "os.Stderr":
		v = ptrTo(nativeObj{&stdStream{i: i, fd: 2}})
	case "os.Args":
		v = append([]value(nil), i.osArgs...)
	default:
		if strings.HasPrefix(name, "unicode.") || strings.HasPrefix(name, "strconv.") {
			panic(engineError{"access to uninitialised global " + name})
		}
		v = zero(mustDeref(g.Type()))
	}
	cell := v
	i.globals[g] = &cell
	return &cell
}

func ptrTo(v value) *value {
	c := v
	return &c
}

func nativeOf(v value) (nativeObj, bool) {
	if no, ok := v.(nativeObj); ok {
		return no, true
	}
	if p, ok := v.(*value); ok && p != nil {
		if no, ok := (*p).(nativeObj); ok {
			return no, true
		}
	}
	return nativeObj{}, false
}
