package interp

// Insertion-ordered maps, so that iteration order is a function of the
// decision vector only.

import (
	"bytes"
	"fmt"
	"strconv"
	"go/types"
)

type omap struct {
	keyType types.Type
	keys    []value
	vals    []value
	live    []bool
	idx     map[string]int
	n       int
}

func makeMap(kt types.Type, reserve int64) value {
	return &omap{keyType: kt, idx: map[string]int{}}
}

func keyString(k value) string {
	switch k := k.(type) {
	case string:
		return "s" + k
	}
	var b bytes.Buffer
	writeKey(&b, k)
	return b.String()
}

func writeKey(b *bytes.Buffer, k value) {
	switch k := k.(type) {
	case string:
		b.WriteString(strconv.Quote(k))
	case structure:
		b.WriteString("{")
		for _, f := range k {
			writeKey(b, f)
			b.WriteString(",")
		}
		b.WriteString("}")
	case array:
		b.WriteString("[")
		for _, f := range k {
			writeKey(b, f)
			b.WriteString(",")
		}
		b.WriteString("]")
	case iface:
		if k.t != nil {
			b.WriteString(k.t.String())
		}
		b.WriteString("(")
		writeKey(b, k.v)
		b.WriteString(")")
	case sym:
		panic("symbolic map key")
	default:
		fmt.Fprintf(b, "%T:%v", k, k)
	}
}

func (m *omap) lookup(k value) (value, bool) {
	if m == nil {
		return nil, false
	}
	i, ok := m.idx[keyString(k)]
	if !ok {
		return nil, false
	}
	return m.vals[i], true
}

func (m *omap) insert(k, v value) {
	ks := keyString(k)
	if i, ok := m.idx[ks]; ok {
		m.vals[i] = v
		return
	}
	m.idx[ks] = len(m.keys)
	m.keys = append(m.keys, k)
	m.vals = append(m.vals, v)
	m.live = append(m.live, true)
	m.n++
}

func (m *omap) delete(k value) {
	if m == nil {
		return
	}
	ks := keyString(k)
	if i, ok := m.idx[ks]; ok {
		delete(m.idx, ks)
		m.live[i] = false
		m.vals[i] = nil
		m.n--
	}
}

func (m *omap) len() int {
	if m == nil {
		return 0
	}
	return m.n
}

type omapIter struct {
	m     *omap
	order []int // indices into keys, in iteration order
	pos   int
}

func (it *omapIter) next() tuple {
	for it.pos < len(it.order) {
		i := it.order[it.pos]
		it.pos++
		if it.m.live[i] {
			return tuple{true, it.m.keys[i], it.m.vals[i]}
		}
	}
	return tuple{false, nil, nil}
}
