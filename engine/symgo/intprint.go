package interp

// The `int` printer: the same term DAG rendered over mathematical integers.
// It is used for a query only if an interval analysis shows that no
// arithmetic node can leave the range of its machine type (so wrap-around
// cannot occur and both printers denote the same values). Every bit-vector
// value is read as a two's-complement *signed* integer; operations that read
// their operands as unsigned are accepted only when the operands are known to
// be non-negative.

import (
	"fmt"
	"math/big"
	"strings"
)

type ival struct{ lo, hi *big.Int }

var (
	big0 = big.NewInt(0)
	big1 = big.NewInt(1)
)

func rangeOfWidth(w uint8) ival {
	if w == 0 {
		return ival{big.NewInt(0), big.NewInt(1)}
	}
	hi := new(big.Int).Lsh(big1, uint(w-1))
	lo := new(big.Int).Neg(hi)
	hi = new(big.Int).Sub(hi, big1)
	return ival{lo, hi}
}

func (a ival) within(b ival) bool { return a.lo.Cmp(b.lo) >= 0 && a.hi.Cmp(b.hi) <= 0 }
func (a ival) nonneg() bool      { return a.lo.Sign() >= 0 }

func minmax(xs ...*big.Int) ival {
	lo, hi := xs[0], xs[0]
	for _, x := range xs[1:] {
		if x.Cmp(lo) < 0 {
			lo = x
		}
		if x.Cmp(hi) > 0 {
			hi = x
		}
	}
	return ival{lo, hi}
}

type intPrinter struct {
	names map[*Term]string
	iv    map[*Term]ival
	okm   map[*Term]bool
	n     *int
	out   *strings.Builder
}

func bigOf(v uint64, w uint8) *big.Int { return big.NewInt(sext64(v, w)) }

// analyse computes the interval of t under the signed reading, and whether
// t is exactly representable without wrap-around.
func (p *intPrinter) analyse(t *Term) (ival, bool) {
	if iv, ok := p.iv[t]; ok {
		return iv, p.okm[t]
	}
	iv, ok := p.analyse1(t)
	p.iv[t] = iv
	p.okm[t] = ok
	return iv, ok
}

func (p *intPrinter) analyse1(t *Term) (ival, bool) {
	full := rangeOfWidth(t.w)
	switch t.op {
	case OConst:
		if t.w == 0 {
			return ival{big.NewInt(int64(t.val)), big.NewInt(int64(t.val))}, true
		}
		b := bigOf(t.val, t.w)
		return ival{b, b}, true
	case OVar:
		if t.w == 0 {
			return full, true
		}
		if t.hi >= t.lo && (t.lo != 0 || t.hi != 0) {
			return ival{big.NewInt(t.lo), big.NewInt(t.hi)}, true
		}
		return full, true
	}
	var a, b, c ival
	oka, okb, okc := true, true, true
	if t.a != nil {
		a, oka = p.analyse(t.a)
	}
	if t.b != nil {
		b, okb = p.analyse(t.b)
	}
	if t.c != nil {
		c, okc = p.analyse(t.c)
	}
	if !oka || !okb || !okc {
		return full, false
	}
	chk := func(r ival) (ival, bool) {
		if r.within(full) {
			return r, true
		}
		return full, false
	}
	switch t.op {
	case OAdd:
		return chk(ival{new(big.Int).Add(a.lo, b.lo), new(big.Int).Add(a.hi, b.hi)})
	case OSub:
		return chk(ival{new(big.Int).Sub(a.lo, b.hi), new(big.Int).Sub(a.hi, b.lo)})
	case OMul:
		return chk(minmax(new(big.Int).Mul(a.lo, b.lo), new(big.Int).Mul(a.lo, b.hi), new(big.Int).Mul(a.hi, b.lo), new(big.Int).Mul(a.hi, b.hi)))
	case ONeg:
		return chk(ival{new(big.Int).Neg(a.hi), new(big.Int).Neg(a.lo)})
	case OSDiv:
		// |x / y| <= |x| for y != 0 (division by zero is excluded by a decision)
		m := new(big.Int).Abs(a.lo)
		if h := new(big.Int).Abs(a.hi); h.Cmp(m) > 0 {
			m = h
		}
		return chk(ival{new(big.Int).Neg(m), m})
	case OSRem:
		m := new(big.Int).Abs(b.lo)
		if h := new(big.Int).Abs(b.hi); h.Cmp(m) > 0 {
			m = h
		}
		return chk(ival{new(big.Int).Neg(m), m})
	case OUDiv, OURem:
		if a.nonneg() && b.nonneg() {
			if t.op == OUDiv {
				return ival{big0, a.hi}, true
			}
			return ival{big0, b.hi}, true
		}
		return full, false
	case OEq, OSlt, OSle, ONot, OBAnd, OBOr:
		return ival{big0, big1}, true
	case OUlt, OUle:
		if a.nonneg() && b.nonneg() {
			return ival{big0, big1}, true
		}
		return full, false
	case OIte:
		return minmax(b.lo, b.hi, c.lo, c.hi), true
	case OSext:
		return a, true
	case OZext:
		if a.nonneg() {
			return a, true
		}
		return full, false
	case OTrunc:
		if a.within(full) {
			return a, true
		}
		return full, false
	case OShl:
		if t.b.isConst() && t.b.val < uint64(t.w) {
			f := new(big.Int).Lsh(big1, uint(t.b.val))
			return chk(ival{new(big.Int).Mul(a.lo, f), new(big.Int).Mul(a.hi, f)})
		}
		return full, false
	case OAShr:
		if t.b.isConst() && t.b.val < uint64(t.w) {
			return ival{new(big.Int).Rsh(a.lo, uint(t.b.val)), new(big.Int).Rsh(a.hi, uint(t.b.val))}, true
		}
		return full, false
	case OLShr:
		if t.b.isConst() && t.b.val < uint64(t.w) && a.nonneg() {
			return ival{new(big.Int).Rsh(a.lo, uint(t.b.val)), new(big.Int).Rsh(a.hi, uint(t.b.val))}, true
		}
		return full, false
	case OAnd:
		if t.b.isConst() && sext64(t.b.val, t.w) >= 0 {
			// x & mask with mask = 2^k - 1 is x mod 2^k
			m := t.b.val
			if m&(m+1) == 0 {
				return ival{big0, big.NewInt(int64(m))}, true
			}
		}
		return full, false
	case OXor:
		if t.b.isConst() && t.b.val == 1 {
			return chk(ival{new(big.Int).Sub(a.lo, big1), new(big.Int).Add(a.hi, big1)})
		}
		return full, false
	case OBNot:
		return chk(ival{new(big.Int).Sub(new(big.Int).Neg(a.hi), big1), new(big.Int).Sub(new(big.Int).Neg(a.lo), big1)})
	}
	return full, false
}

func intLit(v int64) string {
	if v < 0 {
		return fmt.Sprintf("(- %d)", -v)
	}
	return fmt.Sprintf("%d", v)
}

func intName(v *Term) string { return v.name + "!i" }

// ref renders t over Int/Bool; analyse(t) must have succeeded.
func (p *intPrinter) ref(t *Term) string {
	switch t.op {
	case OConst:
		if t.w == 0 {
			return constSMT(t)
		}
		return intLit(sext64(t.val, t.w))
	case OVar:
		if t.w == 0 {
			return t.name
		}
		return intName(t)
	}
	if s, ok := p.names[t]; ok {
		return s
	}
	var body string
	a := ""
	if t.a != nil {
		a = p.ref(t.a)
	}
	b := ""
	if t.b != nil {
		b = p.ref(t.b)
	}
	switch t.op {
	case OAdd:
		body = fmt.Sprintf("(+ %s %s)", a, b)
	case OSub:
		body = fmt.Sprintf("(- %s %s)", a, b)
	case OMul:
		body = fmt.Sprintf("(* %s %s)", a, b)
	case ONeg:
		body = fmt.Sprintf("(- %s)", a)
	case OSDiv:
		body = fmt.Sprintf("(ite (>= %s 0) (div %s %s) (- (div (- %s) %s)))", a, a, b, a, b)
	case OSRem:
		body = fmt.Sprintf("(- %s (* %s (ite (>= %s 0) (div %s %s) (- (div (- %s) %s)))))", a, b, a, a, b, a, b)
	case OUDiv:
		body = fmt.Sprintf("(div %s %s)", a, b)
	case OURem:
		body = fmt.Sprintf("(mod %s %s)", a, b)
	case OEq:
		body = fmt.Sprintf("(= %s %s)", a, b)
	case OSlt, OUlt:
		body = fmt.Sprintf("(< %s %s)", a, b)
	case OSle, OUle:
		body = fmt.Sprintf("(<= %s %s)", a, b)
	case ONot:
		body = fmt.Sprintf("(not %s)", a)
	case OBAnd:
		body = fmt.Sprintf("(and %s %s)", a, b)
	case OBOr:
		body = fmt.Sprintf("(or %s %s)", a, b)
	case OIte:
		body = fmt.Sprintf("(ite %s %s %s)", a, b, p.ref(t.c))
	case OSext, OZext, OTrunc:
		body = a
	case OShl:
		body = fmt.Sprintf("(* %s %d)", a, uint64(1)<<t.b.val)
	case OAShr, OLShr:
		body = fmt.Sprintf("(div %s %d)", a, uint64(1)<<t.b.val)
	case OAnd:
		body = fmt.Sprintf("(mod %s %d)", a, t.b.val+1)
	case OXor:
		body = fmt.Sprintf("(+ %s (- 1 (* 2 (mod %s 2))))", a, a)
	case OBNot:
		body = fmt.Sprintf("(- (- %s) 1)", a)
	default:
		panic("intPrinter.ref: unsupported op " + opNames[t.op])
	}
	if t.size <= 3 || t.op == OSext || t.op == OZext || t.op == OTrunc {
		p.names[t] = body
		return body
	}
	*p.n++
	name := fmt.Sprintf("i!%d", *p.n)
	sort := "Int"
	if t.w == 0 {
		sort = "Bool"
	}
	fmt.Fprintf(p.out, "(define-fun %s () %s %s)\n", name, sort, body)
	p.names[t] = name
	return name
}
