package interp

// Cooperative scheduler for interpreted goroutines, engine-level channels,
// and a vector-clock happens-before monitor.

import (
	"fmt"
	"go/types"

	"golang.org/x/tools/go/ssa"
)

type gstate int

const (
	gRunnable gstate = iota
	gBlocked
	gDone
)

type goroutine struct {
	id     int
	state  gstate
	resume chan struct{}
	vc     vclock
	// channel wait results
	wval    value
	wok     bool
	wpanic  string
	wcase   int // select: index of the case that fired
	started bool
	fn      value
	args    []value
	pos     *ssa.Go
	waitOn  string
}

type killGoroutine struct{}

type waiter struct {
	g      *goroutine
	val    value // for senders
	caseIx int
	sel    *selWait // non-nil if part of a select
}

type selWait struct {
	done bool
}

type channel struct {
	id     int
	cap    int
	buf    []value
	bufvc  []vclock
	closed bool
	recvq  []*waiter
	sendq  []*waiter
	elem   types.Type
	never  bool // a channel that never becomes ready (ticker)
	vc     vclock
	// HB bookkeeping for unbuffered/buffered channels
	closevc vclock
}

type scheduler struct {
	i        *interpreter
	gs       []*goroutine
	cur      *goroutine
	main     *goroutine
	nchan    int
	explore  bool // all scheduling choices are decisions
	preempt  int  // remaining preemption budget
	hb       bool
	cells    map[*value]*cellState
	mainDone bool
	killed   bool
	baton    chan struct{} // signalled to the path driver when everything is torn down
	switches int
	preemptBound int // -1: unbounded
	preemptions  int
}

func newScheduler(i *interpreter) *scheduler {
	s := &scheduler{i: i, preemptBound: -1}
	g := &goroutine{id: 0, state: gRunnable, resume: make(chan struct{}, 1), started: true}
	g.vc = vclock{1}
	s.gs = []*goroutine{g}
	s.cur = g
	s.main = g
	return s
}

func (s *scheduler) newChan(n int, elem types.Type) *channel {
	s.nchan++
	return &channel{id: s.nchan, cap: n, elem: elem}
}

// spawn creates a new goroutine; it becomes runnable.
func (s *scheduler) spawn(fr *frame, instr *ssa.Go, fn value, args []value) {
	g := &goroutine{id: len(s.gs), state: gRunnable, resume: make(chan struct{}, 1), fn: fn, args: args, pos: instr}
	// HB: go statement happens before the goroutine's start
	cur := fr.g
	g.vc = cur.vc.clone()
	g.vc = g.vc.tick(g.id)
	cur.vc = cur.vc.tick(cur.id)
	s.gs = append(s.gs, g)
	s.yieldPoint(fr, "go")
}

func (s *scheduler) runnable() []*goroutine {
	var r []*goroutine
	for _, g := range s.gs {
		if g.state == gRunnable {
			r = append(r, g)
		}
	}
	return r
}

// yieldPoint: the current goroutine stays runnable, but another may be chosen.
func (s *scheduler) yieldPoint(fr *frame, why string) {
	if !s.explore {
		return // default policy: keep running until blocked
	}
	rs := s.runnable()
	if len(rs) <= 1 {
		return
	}
	if s.preemptBound >= 0 && s.preemptions >= s.preemptBound {
		return // preemption budget used up: keep running until blocked
	}
	// put the current goroutine first so that choice 0 means "no preemption"
	for i, g := range rs {
		if g == fr.g {
			rs[0], rs[i] = rs[i], rs[0]
		}
	}
	k := s.i.path.Choose(len(rs), "sched:"+why)
	next := rs[k]
	if next != fr.g {
		s.preemptions++
		s.switchTo(fr.g, next)
	}
}

// block: the current goroutine cannot continue; pick another.
func (s *scheduler) block(g *goroutine, why string) {
	g.state = gBlocked
	g.waitOn = why
	s.pickNext(g)
}

func (s *scheduler) pickNext(from *goroutine) {
	rs := s.runnable()
	if len(rs) == 0 {
		// deadlock
		desc := ""
		for _, g := range s.gs {
			if g.state == gBlocked {
				desc += fmt.Sprintf(" g%d:%s", g.id, g.waitOn)
			}
		}
		if s.mainDone {
			// all remaining goroutines are blocked forever: leak; end of path
			panic(killGoroutine{})
		}
		s.i.path.abortFrom(from, OutDeadlock, "all goroutines are asleep:"+desc)
		return
	}
	k := 0
	if s.explore && len(rs) > 1 {
		k = s.i.path.Choose(len(rs), "sched:block")
	}
	s.switchTo(from, rs[k])
}

// switchTo transfers the baton from 'from' to 'to' and parks 'from' until it
// is resumed.
func (s *scheduler) switchTo(from, to *goroutine) {
	s.switches++
	s.cur = to
	s.start(to)
	if from.state == gDone {
		return
	}
	<-from.resume
	if s.killed {
		if cp := s.i.path.crossPanic; cp != nil && from == s.main {
			s.i.path.crossPanic = nil
			panic(cp)
		}
		panic(killGoroutine{})
	}
}

func (s *scheduler) start(g *goroutine) {
	if g.started {
		g.resume <- struct{}{}
		return
	}
	g.started = true
	go func() {
		defer func() {
			r := recover()
			switch r := r.(type) {
			case nil:
			case killGoroutine:
				return
			default:
				// propagate to the main goroutine of the path
				s.i.path.crossPanic = r
				s.killed = true
				s.wake(s.main)
				return
			}
		}()
		root := &frame{i: s.i, g: g}
		call(s.i, root, g.pos.Pos(), g.fn, g.args)
		g.state = gDone
		if rs := s.runnable(); len(rs) > 0 || !s.mainDone {
			s.pickNext(g)
		}
	}()
}

func (s *scheduler) wake(g *goroutine) {
	select {
	case g.resume <- struct{}{}:
	default:
	}
}

// mainFinished is called when the harness function returns: other goroutines
// are abandoned.
func (s *scheduler) killAll() {
	s.mainDone = true
	s.killed = true
	for _, g := range s.gs {
		if g != s.main && g.started && g.state != gDone {
			s.wake(g)
		}
	}
}

func (p *Path) abortFrom(g *goroutine, o Outcome, msg string) {
	panic(pathAbort{o, msg})
}

// ---- channel operations ----

func (s *scheduler) chanOf(fr *frame, x value) *channel {
	c, ok := x.(*channel)
	if !ok {
		panic(fmt.Sprintf("not a channel: %T", x))
	}
	return c
}

func (s *scheduler) send(fr *frame, chv value, v value) {
	c := s.chanOf(fr, chv)
	g := fr.g
	if c == nil || c.never {
		s.block(g, "send on nil channel")
		return
	}
	if c.closed {
		rtPanic("send on closed channel")
	}
	// receiver waiting?
	for len(c.recvq) > 0 {
		w := c.recvq[0]
		c.recvq = c.recvq[1:]
		if w.sel != nil {
			if w.sel.done {
				continue
			}
			w.sel.done = true
		}
		w.g.wval, w.g.wok, w.g.wcase = v, true, w.caseIx
		// HB: send happens before the receive completes; for unbuffered
		// channels the receive also happens before the send completes.
		w.g.vc = w.g.vc.join(g.vc)
		if c.cap == 0 {
			g.vc = g.vc.join(w.g.vc)
		}
		g.vc = g.vc.tick(g.id)
		w.g.vc = w.g.vc.tick(w.g.id)
		w.g.state = gRunnable
		s.yieldPoint(fr, "send")
		return
	}
	if len(c.buf) < c.cap {
		c.buf = append(c.buf, v)
		c.bufvc = append(c.bufvc, g.vc.clone())
		g.vc = g.vc.tick(g.id)
		s.yieldPoint(fr, "send")
		return
	}
	w := &waiter{g: g, val: v}
	c.sendq = append(c.sendq, w)
	s.block(g, fmt.Sprintf("send ch%d", c.id))
	if g.wpanic != "" {
		m := g.wpanic
		g.wpanic = ""
		rtPanic(m)
	}
}

func (s *scheduler) recv(fr *frame, instr *ssa.UnOp, chv value) value {
	c := s.chanOf(fr, chv)
	g := fr.g
	mk := func(v value, ok bool) value {
		if instr.CommaOk {
			return tuple{v, ok}
		}
		return v
	}
	if c == nil || c.never {
		s.block(g, "receive on nil channel")
		return nil
	}
	v, ok, ready := s.tryRecv(g, c)
	if ready {
		s.yieldPoint(fr, "recv")
		return mk(v, ok)
	}
	w := &waiter{g: g}
	c.recvq = append(c.recvq, w)
	s.block(g, fmt.Sprintf("recv ch%d", c.id))
	if !g.wok {
		return mk(zero(c.elem), false)
	}
	return mk(g.wval, true)
}

// tryRecv attempts a non-blocking receive.
func (s *scheduler) tryRecv(g *goroutine, c *channel) (v value, ok bool, ready bool) {
	if len(c.buf) > 0 {
		v = c.buf[0]
		g.vc = g.vc.join(c.bufvc[0])
		c.buf = c.buf[1:]
		c.bufvc = c.bufvc[1:]
		// a blocked sender may now proceed
		for len(c.sendq) > 0 {
			w := c.sendq[0]
			c.sendq = c.sendq[1:]
			if w.sel != nil {
				if w.sel.done {
					continue
				}
				w.sel.done = true
			}
			c.buf = append(c.buf, w.val)
			c.bufvc = append(c.bufvc, w.g.vc.clone())
			// HB: k-th receive happens before (k+C)-th send completes
			w.g.vc = w.g.vc.join(g.vc)
			w.g.vc = w.g.vc.tick(w.g.id)
			w.g.wcase = w.caseIx
			w.g.state = gRunnable
			break
		}
		g.vc = g.vc.tick(g.id)
		return v, true, true
	}
	for len(c.sendq) > 0 {
		w := c.sendq[0]
		c.sendq = c.sendq[1:]
		if w.sel != nil {
			if w.sel.done {
				continue
			}
			w.sel.done = true
		}
		v = w.val
		g.vc = g.vc.join(w.g.vc)
		w.g.vc = w.g.vc.join(g.vc)
		g.vc = g.vc.tick(g.id)
		w.g.vc = w.g.vc.tick(w.g.id)
		w.g.wcase = w.caseIx
		w.g.state = gRunnable
		return v, true, true
	}
	if c.closed {
		g.vc = g.vc.join(c.closevc)
		g.vc = g.vc.tick(g.id)
		return zero(c.elem), false, true
	}
	return nil, false, false
}

func (s *scheduler) closeChan(fr *frame, chv value) {
	c := s.chanOf(fr, chv)
	g := fr.g
	if c == nil {
		rtPanic("close of nil channel")
	}
	if c.closed {
		rtPanic("close of closed channel")
	}
	c.closed = true
	c.closevc = g.vc.clone()
	g.vc = g.vc.tick(g.id)
	for _, w := range c.recvq {
		if w.sel != nil {
			if w.sel.done {
				continue
			}
			w.sel.done = true
		}
		w.g.wval, w.g.wok, w.g.wcase = nil, false, w.caseIx
		w.g.vc = w.g.vc.join(c.closevc)
		w.g.state = gRunnable
	}
	c.recvq = nil
	for _, w := range c.sendq {
		if w.sel != nil {
			if w.sel.done {
				continue
			}
			w.sel.done = true
		}
		w.g.wpanic = "send on closed channel"
		w.g.wcase = w.caseIx
		w.g.state = gRunnable
	}
	c.sendq = nil
	s.yieldPoint(fr, "close")
}

func (s *scheduler) selectOp(fr *frame, instr *ssa.Select) value {
	g := fr.g
	type cs struct {
		c    *channel
		send bool
		val  value
	}
	cases := make([]cs, len(instr.States))
	for i, st := range instr.States {
		c, _ := fr.get(st.Chan).(*channel)
		cases[i] = cs{c: c, send: st.Dir == types.SendOnly}
		if st.Send != nil {
			cases[i].val = fr.get(st.Send)
		}
	}
	result := func(chosen int, recvOk bool, v value) value {
		r := tuple{chosen, recvOk}
		for i, st := range instr.States {
			if st.Dir == types.RecvOnly {
				if i == chosen && recvOk {
					r = append(r, v)
				} else {
					r = append(r, zero(st.Chan.Type().Underlying().(*types.Chan).Elem()))
				}
			}
		}
		return r
	}
	// which cases are ready?
	var ready []int
	for i, c := range cases {
		if c.c == nil || c.c.never {
			continue
		}
		if c.send {
			if c.c.closed || len(c.c.buf) < c.c.cap || liveWaiters(c.c.recvq) {
				ready = append(ready, i)
			}
		} else {
			if len(c.c.buf) > 0 || liveWaiters(c.c.sendq) || c.c.closed {
				ready = append(ready, i)
			}
		}
	}
	if len(ready) > 0 {
		k := 0
		if len(ready) > 1 {
			k = s.i.path.Choose(len(ready), "select")
		}
		i := ready[k]
		c := cases[i]
		if c.send {
			s.send(fr, c.c, c.val)
			return result(i, false, nil)
		}
		v, ok, _ := s.tryRecv(g, c.c)
		s.yieldPoint(fr, "select")
		return result(i, ok, v)
	}
	if !instr.Blocking {
		return result(-1, false, nil)
	}
	sw := &selWait{}
	n := 0
	for i, c := range cases {
		if c.c == nil || c.c.never {
			continue
		}
		n++
		w := &waiter{g: g, caseIx: i, sel: sw, val: c.val}
		if c.send {
			c.c.sendq = append(c.c.sendq, w)
		} else {
			c.c.recvq = append(c.c.recvq, w)
		}
	}
	s.block(g, "select")
	if g.wpanic != "" {
		m := g.wpanic
		g.wpanic = ""
		rtPanic(m)
	}
	i := g.wcase
	if cases[i].send {
		return result(i, false, nil)
	}
	return result(i, g.wok, g.wval)
}

func liveWaiters(q []*waiter) bool {
	for _, w := range q {
		if w.sel == nil || !w.sel.done {
			return true
		}
	}
	return false
}

// ---- vector clocks and the happens-before monitor ----

type vclock []int

func (v vclock) clone() vclock { return append(vclock(nil), v...) }

func (v vclock) tick(id int) vclock {
	for len(v) <= id {
		v = append(v, 0)
	}
	v[id]++
	return v
}

func (v vclock) join(o vclock) vclock {
	for len(v) < len(o) {
		v = append(v, 0)
	}
	for i, x := range o {
		if x > v[i] {
			v[i] = x
		}
	}
	return v
}

func (v vclock) get(id int) int {
	if id < len(v) {
		return v[id]
	}
	return 0
}

type epoch struct {
	g   int
	clk int
	pos string
}

type cellState struct {
	w     epoch
	hasW  bool
	reads []epoch
}

// access records a load or store of a heap cell by the current goroutine and
// reports a data race if it is not ordered after a conflicting access.
func (s *scheduler) access(fr *frame, p *value, write bool, instr ssa.Instruction) {
	g := fr.g
	if g == nil {
		return
	}
	if s.cells == nil {
		s.cells = map[*value]*cellState{}
	}
	cs := s.cells[p]
	if cs == nil {
		cs = &cellState{}
		s.cells[p] = cs
	}
	here := func() string {
		if instr == nil {
			if fr.fn != nil {
				return fr.fn.String() + " (append/copy)"
			}
			return "(append/copy)"
		}
		return fr.fn.String() + loc(s.i.prog.Fset, instr.Pos())
	}
	if cs.hasW && cs.w.g != g.id && cs.w.clk > g.vc.get(cs.w.g) {
		s.i.path.abort(OutRace, "data race: %s by g%d at %s is concurrent with write by g%d at %s", rw(write), g.id, here(), cs.w.g, cs.w.pos)
	}
	if write {
		for _, r := range cs.reads {
			if r.g != g.id && r.clk > g.vc.get(r.g) {
				s.i.path.abort(OutRace, "data race: write by g%d at %s is concurrent with read by g%d at %s", g.id, here(), r.g, r.pos)
			}
		}
		cs.w = epoch{g.id, g.vc.get(g.id), here()}
		cs.hasW = true
		cs.reads = cs.reads[:0]
	} else {
		for k := range cs.reads {
			if cs.reads[k].g == g.id {
				cs.reads[k].clk = g.vc.get(g.id)
				return
			}
		}
		cs.reads = append(cs.reads, epoch{g.id, g.vc.get(g.id), here()})
	}
}

func rw(w bool) string {
	if w {
		return "write"
	}
	return "read"
}
