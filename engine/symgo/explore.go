package interp

// Path exploration: forking by re-execution with a decision log.

import (
	"fmt"
	"sort"
	"strings"
	"sync"
	"time"
)

type DecKind uint8

const (
	DecBranch DecKind = iota // 2-way on a symbolic condition
	DecConc                  // concretisation of a symbolic value
	DecChoose                // harness / engine choice without solver
)

type Decision struct {
	Kind   DecKind
	Choice uint64
	Forced bool
	Excl   []uint64 // DecConc: sibling values already explored
	Last   bool     // DecConc: no further siblings need to be spawned by this item
	Site   string
}

type workItem struct {
	prefix []Decision
	model  map[string]uint64 // nil: must be fetched after replaying the prefix
}

type Outcome int

const (
	OutOK Outcome = iota
	OutViolation
	OutPanic
	OutDropped // Assume infeasible
	OutFuel
	OutDeadlock
	OutRace
	OutInconclusive
	OutEngineError
	OutInfeasible // unknown-feasibility prefix turned out unsat
)

var outcomeNames = [...]string{"ok", "violation", "panic", "assume-dropped", "fuel", "deadlock", "race", "inconclusive", "engine-error", "infeasible"}

func (o Outcome) String() string { return outcomeNames[o] }

type pathAbort struct {
	out Outcome
	msg string
}

type PathResult struct {
	Outcome   Outcome
	Msg       string
	Witness   map[string]int64 // named symbolic inputs (signed interpretation)
	Choices   []uint64         // decision vector (for replay inside the engine)
	Tags      []string
	Asserts   int
	Decisions int
	Instrs    int
	Output    string
	Stack     string
	Obs       map[string]string // engine-side observables for cross-validation
	HChoices  []int             // harness-level Choose results, in order
	Funcs     []string
}

// Path is the per-execution symbolic state.
type Path struct {
	eng              *Engine
	wk               *worker
	prefix           []Decision
	pos              int
	log              []Decision
	model            map[string]uint64
	evalc            *evalCtx
	vars             []*Term
	varSeq           map[string]int
	fixed            map[string]uint64
	pcount           int // number of asserted constraints
	printer          *smtPrinter
	buf              strings.Builder
	fuel             int
	instrs           int
	tags             []string
	asserts          int
	out              strings.Builder // captured stdout of the target
	obs              map[string]string
	params           map[string]int
	newDecs          int
	errOut           strings.Builder
	intMode          bool
	crossNext        bool
	multi            map[int]bool
	noDomainFastPath bool
	domDecided       int
	iprinter         *intPrinter
	intDeclared      map[*Term]bool
	pc               []pcEntry
	uf               []int
	dom              []uint64
	seenFns          map[*ssaFunction]bool
	crossPanic       interface{}
	hchoices         []int
}

type Config struct {
	Harness      string // qualified function name, e.g. github.com/crillab/gophersat/solver.VP_x
	Params       map[string]int
	Workers      int
	Fuel         int
	TimeoutMs    int
	MaxPaths     int
	MaxViol      int
	Solver       SolverKind
	Deadline     time.Time
	KeepSamples  int
	CrossCheck   []SolverKind // re-run assert queries on these solvers
	Trace        bool
	NoQueryCache bool
	IntMode      bool     // use the integer printer where the no-wrap analysis allows it
	Args         []string // os.Args for harnesses interpreting main
}

type Stats struct {
	SolverRestarts int
	Paths          int
	ByOutcome      map[string]int
	Decisions      int
	Forced         int
	Queries        int
	SolverTime     time.Duration
	InterpTime     time.Duration
	Asserts        int
	AssertsSym     int
	Tags           map[string]int
	MaxInstrs      int
	TotalInstrs    int
	Funcs          map[string]int
	Unknowns       int
	IntQueries     int
	CacheHits      int
	DomDecided     int // branch decisions settled by finite-domain propagation on one independent variable
	CrossChecks    int
	CrossDiffs     int
	Wall           time.Duration
	Truncated      bool
}

type qkey struct{ a, b uint64 }

type qval struct {
	res  string
	vals map[string]uint64
}

type Engine struct {
	qcache  sync.Map // qkey -> qval
	prog    *Program
	cfg     Config
	mu      sync.Mutex
	cond    *sync.Cond
	work    []workItem
	busy    int
	stop    bool
	results []PathResult // violations, panics, etc (non-ok), capped
	samples []PathResult // sample of ok paths
	stats   Stats
}

type worker struct {
	id     int
	solver *Solver
	cross  []*Solver
}

func (p *Path) abort(o Outcome, format string, args ...interface{}) {
	panic(pathAbort{o, fmt.Sprintf(format, args...)})
}

// ---- solver interaction ----

func (p *Path) flushDefs() {
	if p.buf.Len() > 0 {
		txt := p.buf.String()
		p.wk.solver.send(txt)
		for _, cs := range p.wk.cross {
			cs.send(txt) // cross-check solvers mirror declarations and definitions
		}
		p.buf.Reset()
	}
}

type pcEntry struct {
	t    *Term
	vars []*Term
}

func (p *Path) declare(v *Term) {
	fmt.Fprintf(&p.buf, "(declare-fun %s () %s)\n", v.name, sortOf(v.w))
	v.val = uint64(len(p.vars)) // index of the variable on this path
	p.vars = append(p.vars, v)
	p.uf = append(p.uf, len(p.uf))
	if v.w > 0 && v.hi >= v.lo && v.hi-v.lo < 64 {
		p.dom = append(p.dom, (uint64(1)<<uint(v.hi-v.lo+1))-1)
	} else if v.w == 0 {
		p.dom = append(p.dom, 3)
	} else {
		p.dom = append(p.dom, 0) // no finite domain tracked
	}
}

func (p *Path) find(i int) int {
	for p.uf[i] != i {
		p.uf[i] = p.uf[p.uf[i]]
		i = p.uf[i]
	}
	return i
}

func termVars(t *Term) []*Term {
	var vs []*Term
	collectVars(t, map[*Term]bool{}, &vs)
	return vs
}

// assertTerm adds t to the path condition.
func (p *Path) assertTerm(t *Term) {
	if t.isTrue() {
		return
	}
	vs := termVars(t)
	p.pc = append(p.pc, pcEntry{t, vs})
	p.pcount++
	for k := 1; k < len(vs); k++ {
		a, b := p.find(int(vs[0].val)), p.find(int(vs[k].val))
		if a != b {
			p.uf[a] = b
		}
	}
	if len(vs) == 1 {
		p.filterDomain(vs[0], t)
	} else if len(vs) > 1 {
		p.multi[int(vs[0].val)] = true
		for _, v := range vs {
			p.multi[int(v.val)] = true
		}
	}
}

// soloDomain returns the values of the finite domain of v if v is
// independent of all other variables (its constraints are all single-variable
// and have been applied to the domain), so that feasibility questions about v
// alone can be answered by finite-domain propagation.
func (p *Path) soloDomain(t *Term) (v *Term, dom []uint64, ok bool) {
	vs := termVars(t)
	if len(vs) != 1 || p.noDomainFastPath {
		return nil, nil, false
	}
	v = vs[0]
	idx := int(v.val)
	if p.multi[idx] || p.dom[idx] == 0 {
		return nil, nil, false
	}
	base := v.lo
	if v.w == 0 {
		base = 0
	}
	d := p.dom[idx]
	for k := 0; k < 64; k++ {
		if d&(uint64(1)<<uint(k)) != 0 {
			dom = append(dom, uint64(base+int64(k))&mask1(v.w))
		}
	}
	return v, dom, true
}

// filterDomain narrows the finite domain of v by the single-variable
// constraint t (constant propagation: a singleton domain fixes v).
func (p *Path) filterDomain(v *Term, t *Term) {
	idx := int(v.val)
	d := p.dom[idx]
	if d == 0 {
		return
	}
	if _, ok := p.fixed[v.name]; ok {
		return
	}
	base := v.lo
	if v.w == 0 {
		base = 0
	}
	m := map[string]uint64{}
	ec := &evalCtx{model: m}
	var nd uint64
	cnt := 0
	var last uint64
	for k := 0; k < 64; k++ {
		if d&(uint64(1)<<uint(k)) == 0 {
			continue
		}
		x := uint64(base+int64(k)) & mask1(v.w)
		m[v.name] = x
		ec.memo = nil
		if ec.eval(t) != 0 {
			nd |= uint64(1) << uint(k)
			cnt++
			last = x
		}
	}
	p.dom[idx] = nd
	if cnt == 1 {
		p.fixed[v.name] = last
	}
}

// query checks satisfiability of (the relevant slice of) PC ∧ extra...; on
// sat and wantModel it returns the current model updated on the slice.
func (p *Path) query(wantModel bool, extra ...*Term) (string, map[string]uint64) {
	// relevant equivalence classes
	reps := map[int]bool{}
	var qvars []*Term
	seen := map[*Term]bool{}
	for _, t := range extra {
		collectVars(t, seen, &qvars)
	}
	all := len(extra) == 0
	for _, v := range qvars {
		reps[p.find(int(v.val))] = true
	}
	inSlice := func(e pcEntry) bool {
		return all || (len(e.vars) > 0 && reps[p.find(int(e.vars[0].val))])
	}
	var svars []*Term
	if all {
		svars = p.vars
	} else {
		for _, v := range p.vars {
			if reps[p.find(int(v.val))] {
				svars = append(svars, v)
			}
		}
	}
	// query cache (shared by all workers): key = multiset of structural
	// hashes of the slice constraints and of the extra assertions
	var k1, k2, x1, x2 uint64
	for _, e := range p.pc {
		if inSlice(e) {
			k1 += e.t.h1 * 0x9e3779b97f4a7c15
			k2 += e.t.h2 * 0xc2b2ae3d27d4eb4f
		}
	}
	for _, t := range extra {
		x1 += t.h1 * 0xff51afd7ed558ccd
		x2 += t.h2 * 0x9e3779b97f4a7c15
	}
	key := qkey{mix(k1, x1), mix(k2, x2)}
	if cv, ok := p.eng.qcache.Load(key); ok && !p.eng.cfg.NoQueryCache {
		v := cv.(qval)
		p.eng.mu.Lock()
		p.eng.stats.CacheHits++
		p.eng.mu.Unlock()
		if v.res == "sat" && wantModel {
			m := make(map[string]uint64, len(p.vars))
			for k, x := range p.model {
				m[k] = x
			}
			for k, x := range v.vals {
				m[k] = x
			}
			return v.res, m
		}
		return v.res, nil
	}
	useInt := false
	if p.intMode {
		useInt = true
		for _, e := range p.pc {
			if inSlice(e) {
				if _, ok := p.iprinter.analyse(e.t); !ok {
					useInt = false
					break
				}
			}
		}
		for _, t := range extra {
			if !useInt {
				break
			}
			if _, ok := p.iprinter.analyse(t); !ok {
				useInt = false
			}
		}
	}
	var q strings.Builder
	q.WriteString("(push 1)\n")
	if useInt {
		p.eng.mu.Lock()
		p.eng.stats.IntQueries++
		p.eng.mu.Unlock()
		for _, v := range svars {
			if v.w == 0 {
				continue
			}
			if !p.intDeclared[v] {
				p.intDeclared[v] = true
				fmt.Fprintf(&p.buf, "(declare-fun %s () Int)\n", intName(v))
			}
			iv, _ := p.iprinter.analyse(v)
			fmt.Fprintf(&q, "(assert (and (<= %s %s) (<= %s %s)))\n", intLit(iv.lo.Int64()), intName(v), intName(v), intLit(iv.hi.Int64()))
		}
		for _, e := range p.pc {
			if inSlice(e) {
				fmt.Fprintf(&q, "(assert %s)\n", p.iprinter.ref(e.t))
			}
		}
		for _, t := range extra {
			fmt.Fprintf(&q, "(assert %s)\n", p.iprinter.ref(t))
		}
	} else {
		for _, e := range p.pc {
			if inSlice(e) {
				r := p.printer.ref(e.t)
				fmt.Fprintf(&q, "(assert %s)\n", r)
			}
		}
		for _, t := range extra {
			r := p.printer.ref(t)
			fmt.Fprintf(&q, "(assert %s)\n", r)
		}
	}
	// declarations and definitions (path scope) first, then the scoped query
	p.flushDefs()
	p.wk.solver.send(q.String())
	s := p.wk.solver
	res := s.CheckSat()
	if res == "unsat" && p.crossNext {
		// the same scoped query, same printer, on the other solvers
		for _, cs := range p.wk.cross {
			cs.send(q.String())
			cres := cs.CheckSat()
			cs.send("(pop 1)\n")
			p.eng.mu.Lock()
			p.eng.stats.CrossChecks++
			if cres != "unsat" {
				p.eng.stats.CrossDiffs++
			}
			p.eng.mu.Unlock()
			if cres == "sat" || strings.HasPrefix(cres, "error") {
				s.send("(pop 1)\n")
				p.abort(OutEngineError, "solver disagreement: %s answers %s where %s answers unsat", cs.kind, cres, s.kind)
			}
		}
	}
	p.crossNext = false
	var m map[string]uint64
	if res == "sat" && wantModel {
		vals, err := s.GetValues(svars, useInt)
		if err != nil {
			res = "error:" + err.Error()
		} else {
			p.eng.qcache.Store(key, qval{"sat", vals})
			m = make(map[string]uint64, len(p.vars))
			for k, v := range p.model {
				m[k] = v
			}
			for k, v := range vals {
				m[k] = v
			}
		}
	}
	s.send("(pop 1)\n")
	if res == "unsat" {
		p.eng.qcache.Store(key, qval{"unsat", nil})
	}
	if strings.HasPrefix(res, "error") {
		p.abort(OutEngineError, "solver: %s", res)
	}
	if res == "unknown" {
		p.eng.mu.Lock()
		p.eng.stats.Unknowns++
		p.eng.mu.Unlock()
	}
	return res, m
}

func (p *Path) setModel(m map[string]uint64) {
	p.model = m
	p.evalc = &evalCtx{model: m}
}

func (p *Path) evalBool(t *Term) bool {
	return p.evalc.eval(t) != 0
}

// ensureModel is called when a path starts beyond its prefix without a model.
func (p *Path) ensureModel() {
	if p.model != nil {
		return
	}
	res, m := p.query(true)
	switch res {
	case "sat":
		p.setModel(m)
	case "unsat":
		p.abort(OutInfeasible, "prefix infeasible")
	default:
		p.abort(OutInconclusive, "solver answered %s on path feasibility", res)
	}
}

func (p *Path) simplify(t *Term) *Term {
	if t.isConst() || len(p.fixed) == 0 {
		return t
	}
	if v, ok := partialEval(t, p.fixed, map[*Term]pe{}); ok {
		return mkConst(t.w, v)
	}
	return t
}

func (p *Path) push(d Decision, model map[string]uint64) {
	pre := make([]Decision, len(p.log)+1)
	copy(pre, p.log)
	pre[len(p.log)] = d
	p.eng.pushWork(workItem{prefix: pre, model: model})
}

func copyModel(m map[string]uint64) map[string]uint64 {
	c := make(map[string]uint64, len(m))
	for k, v := range m {
		c[k] = v
	}
	return c
}

// Branch decides a symbolic condition.
func (p *Path) Branch(cond *Term, site string) bool {
	cond = p.simplify(cond)
	if cond.isConst() {
		return cond.val != 0
	}
	if p.pos < len(p.prefix) {
		d := p.prefix[p.pos]
		p.pos++
		if d.Kind != DecBranch || d.Site != site {
			p.abort(OutEngineError, "ENGINE-DIVERGENCE at decision %d: logged %v@%s, now branch@%s", p.pos-1, d.Kind, d.Site, site)
		}
		choice := d.Choice != 0
		if !d.Forced {
			if choice {
				p.assertTerm(cond)
			} else {
				p.assertTerm(mkNot(cond))
			}
		}
		p.log = append(p.log, d)
		return choice
	}
	p.ensureModel()
	p.newDecs++
	if v, dom, ok := p.soloDomain(cond); ok {
		// finite-domain propagation for a condition over one independent variable
		var tv, fv []uint64
		m := map[string]uint64{}
		ec := &evalCtx{model: m}
		for _, x := range dom {
			m[v.name] = x
			ec.memo = nil
			if ec.eval(cond) != 0 {
				tv = append(tv, x)
			} else {
				fv = append(fv, x)
			}
		}
		if len(tv)+len(fv) > 0 {
			p.domDecided++
			cur := p.evalBool(cond)
			d := Decision{Kind: DecBranch, Site: site}
			if cur {
				d.Choice = 1
			}
			if (cur && len(tv) == 0) || (!cur && len(fv) == 0) {
				p.abort(OutEngineError, "domain propagation disagrees with the model")
			}
			otherVals := fv
			if !cur {
				otherVals = tv
			}
			if len(otherVals) == 0 {
				d.Forced = true
				p.log = append(p.log, d)
				return cur
			}
			om := copyModel(p.model)
			om[v.name] = otherVals[0]
			od := d
			od.Choice = 1 - d.Choice
			p.push(od, om)
			if cur {
				p.assertTerm(cond)
			} else {
				p.assertTerm(mkNot(cond))
			}
			p.log = append(p.log, d)
			return cur
		}
	}
	mv := p.evalBool(cond)
	var other *Term
	if mv {
		other = mkNot(cond)
	} else {
		other = cond
	}
	res, m := p.query(true, other)
	d := Decision{Kind: DecBranch, Site: site}
	if mv {
		d.Choice = 1
	}
	switch res {
	case "unsat":
		d.Forced = true
		p.log = append(p.log, d)
		return mv
	case "sat":
		od := d
		od.Choice = 1 - d.Choice
		p.push(od, m)
	default: // unknown: explore it without a model
		od := d
		od.Choice = 1 - d.Choice
		p.push(od, nil)
	}
	if mv {
		p.assertTerm(cond)
	} else {
		p.assertTerm(mkNot(cond))
	}
	p.log = append(p.log, d)
	return mv
}

// Concretize forks over all feasible values of t.
func (p *Path) Concretize(t *Term, site string) uint64 {
	t = p.simplify(t)
	if t.isConst() {
		return t.val
	}
	var d Decision
	if p.pos < len(p.prefix) {
		d = p.prefix[p.pos]
		p.pos++
		if d.Kind != DecConc || d.Site != site {
			p.abort(OutEngineError, "ENGINE-DIVERGENCE at decision %d: logged %v@%s, now conc@%s", p.pos-1, d.Kind, d.Site, site)
		}
		if p.pos < len(p.prefix) || d.Last {
			// pure replay
			if !d.Forced {
				p.assertTerm(mkBin(OEq, t, mkConst(t.w, d.Choice)))
			}
			d.Last = true
			p.log = append(p.log, d)
			p.noteFixed(t, d.Choice, false)
			return d.Choice
		}
		// this is the last decision of the prefix: we are a sibling and must spawn the next one.
		p.ensureModel()
	} else {
		p.ensureModel()
		v0 := p.evalc.eval(t)
		d = Decision{Kind: DecConc, Choice: v0, Site: site}
	}
	p.newDecs++
	// look for another value
	excl := append(append([]uint64{}, d.Excl...), d.Choice)
	var cons []*Term
	for _, e := range excl {
		cons = append(cons, mkNot(mkBin(OEq, t, mkConst(t.w, e))))
	}
	var res string
	var m map[string]uint64
	if v, dom, ok := p.soloDomain(t); ok {
		p.domDecided++
		res = "unsat"
		mm := map[string]uint64{}
		ec := &evalCtx{model: mm}
	search:
		for _, x := range dom {
			mm[v.name] = x
			ec.memo = nil
			val := ec.eval(t)
			for _, e := range excl {
				if e == val {
					continue search
				}
			}
			res = "sat"
			m = copyModel(p.model)
			m[v.name] = x
			break
		}
	} else {
		res, m = p.query(true, cons...)
	}
	switch res {
	case "unsat":
		if len(d.Excl) == 0 {
			d.Forced = true
		}
	case "sat":
		ev := &evalCtx{model: m}
		v1 := ev.eval(t)
		p.push(Decision{Kind: DecConc, Choice: v1, Excl: excl, Site: site}, m)
	default:
		p.abort(OutInconclusive, "solver answered %s while enumerating values", res)
	}
	d.Last = true
	if !d.Forced {
		p.assertTerm(mkBin(OEq, t, mkConst(t.w, d.Choice)))
	}
	p.log = append(p.log, d)
	p.noteFixed(t, d.Choice, true)
	return d.Choice
}

// noteFixed records variables whose value is now determined.
func (p *Path) noteFixed(t *Term, val uint64, fresh bool) {
	if t.op == OVar {
		p.fixed[t.name] = val
		return
	}
	// Terms with a single variable: test whether the variable is determined
	// by trying all... we avoid solver queries here: for small declared ranges
	// enumerate the range with the evaluator.
	var vs []*Term
	collectVars(t, map[*Term]bool{}, &vs)
	if len(vs) != 1 {
		return
	}
	v := vs[0]
	if _, ok := p.fixed[v.name]; ok {
		return
	}
	if v.w == 0 {
		cnt, last := 0, uint64(0)
		for x := uint64(0); x < 2; x++ {
			ec := &evalCtx{model: map[string]uint64{v.name: x}}
			if ec.eval(t) == val {
				cnt++
				last = x
			}
		}
		if cnt == 1 {
			p.fixed[v.name] = last
		}
		return
	}
	if v.hi-v.lo > 64 || v.hi < v.lo {
		return
	}
	cnt, last := 0, uint64(0)
	for x := v.lo; x <= v.hi; x++ {
		ec := &evalCtx{model: map[string]uint64{v.name: uint64(x) & mask(v.w)}}
		if ec.eval(t) == val {
			cnt++
			last = uint64(x) & mask(v.w)
		}
	}
	if cnt == 1 {
		// Sound only if the other path constraints do not matter: the value is
		// determined by t == val together with the declared range alone.
		p.fixed[v.name] = last
	}
}

// Choose forks n ways without consulting the solver.
func (p *Path) Choose(n int, site string) int {
	if n <= 1 {
		return 0
	}
	if p.pos < len(p.prefix) {
		d := p.prefix[p.pos]
		p.pos++
		if d.Kind != DecChoose || d.Site != site {
			p.abort(OutEngineError, "ENGINE-DIVERGENCE at decision %d: logged %v@%s, now choose@%s", p.pos-1, d.Kind, d.Site, site)
		}
		p.log = append(p.log, d)
		return int(d.Choice)
	}
	p.ensureModel()
	for k := n - 1; k >= 1; k-- {
		p.push(Decision{Kind: DecChoose, Choice: uint64(k), Site: site}, copyModel(p.model))
	}
	d := Decision{Kind: DecChoose, Choice: 0, Site: site}
	p.log = append(p.log, d)
	return 0
}

// NewVar creates a fresh symbolic variable with a declared (signed) range.
func (p *Path) NewVar(name string, w uint8, lo, hi int64, ranged bool) *Term {
	clean := sanitize(name)
	p.varSeq[clean]++
	full := fmt.Sprintf("%s!%d", clean, p.varSeq[clean])
	v := mkVar(full, w)
	v.lo, v.hi = lo, hi
	p.declare(v)
	if ranged && w > 0 {
		p.assertRange(v, lo, hi)
	}
	if p.model != nil {
		if _, have := p.model[full]; !have {
			if w == 0 {
				p.model[full] = 0
			} else {
				p.model[full] = uint64(lo) & mask(w)
			}
		}
	}
	return v
}

func (p *Path) assertRange(v *Term, lo, hi int64) {
	c := mkAnd(mkBin(OSle, mkConst(v.w, uint64(lo)), v), mkBin(OSle, v, mkConst(v.w, uint64(hi))))
	p.pc = append(p.pc, pcEntry{c, []*Term{v}})
}

func sanitize(s string) string {
	var sb strings.Builder
	for _, c := range s {
		if (c >= 'a' && c <= 'z') || (c >= 'A' && c <= 'Z') || (c >= '0' && c <= '9') || c == '_' {
			sb.WriteRune(c)
		} else {
			sb.WriteRune('_')
		}
	}
	if sb.Len() == 0 {
		return "v"
	}
	return sb.String()
}

// Assume conjoins c to the path condition.
func (p *Path) Assume(c *Term) {
	c = p.simplify(c)
	if c.isTrue() {
		return
	}
	if c.isFalse() {
		p.abort(OutDropped, "assume false")
	}
	if p.pos < len(p.prefix) {
		// replaying: the prefix is known feasible including this assumption
		p.assertTerm(c)
		return
	}
	p.ensureModel()
	if p.evalBool(c) {
		p.assertTerm(c)
		return
	}
	res, m := p.query(true, c)
	switch res {
	case "sat":
		p.assertTerm(c)
		p.setModel(m)
	case "unsat":
		p.abort(OutDropped, "assume infeasible")
	default:
		p.abort(OutInconclusive, "solver answered %s on Assume", res)
	}
}

// Assert checks that c holds for all inputs following this path.
func (p *Path) Assert(c *Term, msg string) {
	p.asserts++
	c = p.simplify(c)
	if c.isTrue() {
		return
	}
	if p.pos < len(p.prefix) {
		// Already checked when this prefix was first executed.
		return
	}
	p.ensureModel()
	if c.isFalse() || !p.evalBool(c) {
		panic(pathAbort{OutViolation, msg})
	}
	p.eng.mu.Lock()
	p.eng.stats.AssertsSym++
	p.eng.mu.Unlock()
	neg := mkNot(c)
	p.crossNext = true
	res, m := p.query(true, neg)
	switch res {
	case "unsat":
	case "sat":
		p.setModel(m)
		panic(pathAbort{OutViolation, msg})
	default:
		p.abort(OutInconclusive, "solver answered %s on Assert(%s)", res, msg)
	}
}

// ---- engine ----

func (e *Engine) pushWork(w workItem) {
	e.mu.Lock()
	e.work = append(e.work, w)
	e.mu.Unlock()
	e.cond.Signal()
}

func (e *Engine) popWork() (workItem, bool) {
	e.mu.Lock()
	defer e.mu.Unlock()
	for {
		if e.stop {
			return workItem{}, false
		}
		if n := len(e.work); n > 0 {
			w := e.work[n-1]
			e.work = e.work[:n-1]
			e.busy++
			return w, true
		}
		if e.busy == 0 {
			e.cond.Broadcast()
			return workItem{}, false
		}
		e.cond.Wait()
	}
}

func (e *Engine) doneWork() {
	e.mu.Lock()
	e.busy--
	if e.busy == 0 && len(e.work) == 0 {
		e.cond.Broadcast()
	}
	e.mu.Unlock()
}

type RunReport struct {
	Stats     Stats
	Results   []PathResult
	Samples   []PathResult
	Harness   string
	Params    map[string]int
	Completed bool
}

func Explore(prog *Program, cfg Config) (*RunReport, error) {
	if cfg.Workers <= 0 {
		cfg.Workers = 16
	}
	if cfg.Fuel <= 0 {
		cfg.Fuel = 2000000
	}
	if cfg.TimeoutMs <= 0 {
		cfg.TimeoutMs = 10000
	}
	if cfg.MaxViol <= 0 {
		cfg.MaxViol = 20
	}
	if cfg.KeepSamples <= 0 {
		cfg.KeepSamples = 5
	}
	fn := prog.lookupFunc(cfg.Harness)
	if fn == nil {
		return nil, fmt.Errorf("harness %s not found", cfg.Harness)
	}
	e := &Engine{prog: prog, cfg: cfg}
	e.cond = sync.NewCond(&e.mu)
	e.stats.ByOutcome = map[string]int{}
	e.stats.Tags = map[string]int{}
	e.stats.Funcs = map[string]int{}
	e.work = []workItem{{prefix: nil, model: map[string]uint64{}}}
	t0 := time.Now()
	var wg sync.WaitGroup
	errs := make(chan error, cfg.Workers)
	for k := 0; k < cfg.Workers; k++ {
		s, err := NewSolver(cfg.Solver, cfg.TimeoutMs)
		if err != nil {
			return nil, err
		}
		wk := &worker{id: k, solver: s}
		for _, ck := range cfg.CrossCheck {
			cs, err := NewSolver(ck, cfg.TimeoutMs)
			if err != nil {
				return nil, err
			}
			wk.cross = append(wk.cross, cs)
		}
		wg.Add(1)
		go func() {
			defer wg.Done()
			defer func() {
				wk.solver.Close()
				for _, cs := range wk.cross {
					cs.Close()
				}
			}()
			for {
				it, ok := e.popWork()
				if !ok {
					return
				}
				res := e.runPathRetry(wk, fn, it)
				e.record(res)
				e.doneWork()
			}
		}()
	}
	wg.Wait()
	close(errs)
	e.stats.Wall = time.Since(t0)
	rep := &RunReport{Stats: e.stats, Results: e.results, Samples: e.samples, Harness: cfg.Harness, Params: cfg.Params}
	rep.Completed = !e.stats.Truncated
	return rep, nil
}

// runPathRetry runs one path; when a solver process of this worker dies
// (broken pipe), the solvers are restarted and the path is executed again from
// its decision prefix. A path on which the solver dies three times is an
// engine error (exit 2), never a verdict.
func (e *Engine) runPathRetry(wk *worker, fn *ssaFunction, it workItem) (res PathResult) {
	// Solver processes are recycled between paths: a long incremental session
	// makes z3 4.8.12 grow to several GB (16 workers x 3 solvers ran the machine
	// out of memory in the thorough tier; cvc5 grows with the mirrored text
	// rather than with the queries, hence the byte count).
	recycle := func(s *Solver, kind SolverKind) *Solver {
		s.paths++
		if s.Queries-s.recycledAt < 1000 && s.sent < 4<<20 && s.paths < 300 {
			return s
		}
		ns, err := NewSolver(kind, e.cfg.TimeoutMs)
		if err != nil {
			return s
		}
		ns.Queries, ns.Time = s.Queries, s.Time
		ns.recycledAt = s.Queries
		s.Close()
		return ns
	}
	wk.solver = recycle(wk.solver, e.cfg.Solver)
	for i := range wk.cross {
		wk.cross[i] = recycle(wk.cross[i], e.cfg.CrossCheck[i])
	}
	for attempt := 0; attempt < 3; attempt++ {
		died := false
		func() {
			defer func() {
				if r := recover(); r != nil {
					if ee, ok := r.(engineError); ok && strings.HasPrefix(ee.msg, "solver pipe") {
						died = true
						return
					}
					panic(r)
				}
			}()
			res = e.runPath(wk, fn, it)
		}()
		if !died && !(res.Outcome == OutEngineError && strings.HasPrefix(res.Msg, "solver pipe")) {
			return res
		}
		wk.solver.Close()
		for _, cs := range wk.cross {
			cs.Close()
		}
		ns, err := NewSolver(e.cfg.Solver, e.cfg.TimeoutMs)
		if err != nil {
			break
		}
		wk.solver = ns
		wk.cross = nil
		for _, ck := range e.cfg.CrossCheck {
			cs, err := NewSolver(ck, e.cfg.TimeoutMs)
			if err != nil {
				break
			}
			wk.cross = append(wk.cross, cs)
		}
		e.mu.Lock()
		e.stats.SolverRestarts++
		e.mu.Unlock()
	}
	res.Outcome = OutEngineError
	res.Msg = "a solver process died repeatedly on this path"
	return
}

func (e *Engine) record(r PathResult) {
	e.mu.Lock()
	defer e.mu.Unlock()
	st := &e.stats
	st.Paths++
	st.ByOutcome[r.Outcome.String()]++
	st.Decisions += r.Decisions
	st.Asserts += r.Asserts
	st.TotalInstrs += r.Instrs
	if r.Instrs > st.MaxInstrs {
		st.MaxInstrs = r.Instrs
	}
	for _, t := range r.Tags {
		st.Tags[t]++
	}
	for _, f := range r.Funcs {
		st.Funcs[f]++
	}
	switch r.Outcome {
	case OutOK:
		if len(e.samples) < e.cfg.KeepSamples || (st.Paths%997 == 0 && len(e.samples) < 4*e.cfg.KeepSamples) {
			e.samples = append(e.samples, r)
		}
	case OutDropped, OutInfeasible:
	default:
		if len(e.results) < 200 {
			e.results = append(e.results, r)
		}
		nviol := 0
		for _, x := range e.results {
			if x.Outcome != OutOK {
				nviol++
			}
		}
		if nviol >= e.cfg.MaxViol {
			e.stop = true
			st.Truncated = true
			e.cond.Broadcast()
		}
	}
	if e.cfg.MaxPaths > 0 && st.Paths >= e.cfg.MaxPaths && !e.stop {
		e.stop = true
		st.Truncated = true
		e.cond.Broadcast()
	}
	if !e.cfg.Deadline.IsZero() && time.Now().After(e.cfg.Deadline) && !e.stop {
		e.stop = true
		st.Truncated = true
		e.cond.Broadcast()
	}
}

func (e *Engine) runPath(wk *worker, fn *ssaFunction, it workItem) (res PathResult) {
	p := &Path{eng: e, wk: wk, prefix: it.prefix, varSeq: map[string]int{}, fixed: map[string]uint64{},
		fuel: e.cfg.Fuel, params: e.cfg.Params, obs: map[string]string{}}
	p.printer = &smtPrinter{names: map[*Term]string{}, out: &p.buf}
	p.iprinter = &intPrinter{names: map[*Term]string{}, iv: map[*Term]ival{}, okm: map[*Term]bool{}, n: &p.printer.n, out: &p.buf}
	p.intDeclared = map[*Term]bool{}
	p.multi = map[int]bool{}
	p.intMode = e.cfg.IntMode
	if it.model != nil {
		p.setModel(it.model)
	}
	q0, t0s := wk.solver.Queries, wk.solver.Time
	t0 := time.Now()
	wk.solver.send("(push 1)\n")
	for _, cs := range wk.cross {
		cs.send("(push 1)\n")
	}
	finish := func() {
		// pop solver context
		p.buf.Reset()
		if !wk.solver.dead {
			func() {
				defer func() { recover() }()
				wk.solver.send("(pop 1)\n")
				for _, cs := range wk.cross {
					cs.send("(pop 1)\n")
				}
			}()
		}
		res.Decisions = len(p.log)
		res.Instrs = p.instrs
		res.Tags = p.tags
		res.Asserts = p.asserts
		res.Output = p.out.String()
		res.Obs = p.obs
		res.HChoices = p.hchoices
		for f := range p.seenFns {
			res.Funcs = append(res.Funcs, f.String())
		}
		res.Choices = make([]uint64, len(p.log))
		for i, d := range p.log {
			res.Choices[i] = d.Choice
		}
		if res.Outcome != OutOK && res.Outcome != OutDropped && res.Outcome != OutInfeasible || true {
			res.Witness = p.witness()
		}
		e.mu.Lock()
		e.stats.DomDecided += p.domDecided
		e.stats.Queries += wk.solver.Queries - q0
		e.stats.SolverTime += wk.solver.Time - t0s
		e.stats.InterpTime += time.Since(t0) - (wk.solver.Time - t0s)
		for _, d := range p.log {
			if d.Forced {
				e.stats.Forced++
			}
		}
		e.mu.Unlock()
	}
	defer finish()
	defer func() {
		if r := recover(); r != nil {
			switch r := r.(type) {
			case pathAbort:
				res.Outcome = r.out
				res.Msg = r.msg
			case engineError:
				res.Outcome = OutEngineError
				res.Msg = r.msg
			default:
				res.Outcome = OutEngineError
				res.Msg = fmt.Sprintf("%v", r)
				res.Stack = stackTrace()
			}
		}
	}()
	out, msg, stk := runHarness(e.prog, p, fn)
	res.Outcome = out
	res.Msg = msg
	res.Stack = stk
	if out == OutOK && p.pos < len(p.prefix) {
		res.Outcome = OutEngineError
		res.Msg = fmt.Sprintf("ENGINE-DIVERGENCE: path ended after %d of %d logged decisions", p.pos, len(p.prefix))
	}
	return
}

// witness returns the values of all variables under the current model.
func (p *Path) witness() map[string]int64 {
	w := map[string]int64{}
	if p.model == nil {
		// try to obtain one
		func() {
			defer func() { recover() }()
			p.ensureModel()
		}()
	}
	for _, v := range p.vars {
		var val uint64
		if p.model != nil {
			if x, ok := p.model[v.name]; ok {
				val = x
			} else if v.w > 0 {
				val = uint64(v.lo)
			}
		}
		if f, ok := p.fixed[v.name]; ok {
			val = f
		}
		if v.w == 0 {
			w[v.name] = int64(val & 1)
		} else {
			w[v.name] = sext64(val&mask(v.w), v.w)
		}
	}
	return w
}

func sortedKeys(m map[string]int) []string {
	ks := make([]string, 0, len(m))
	for k := range m {
		ks = append(ks, k)
	}
	sort.Strings(ks)
	return ks
}
