#!/bin/bash
# seedcheck.sh <ID> <pkgdir> <runpattern> [srcdir]
# Confirms a seeded change in a fresh scratch worktree of /repo HEAD~fixes (the
# pinned tree the agent worked on is HEAD at the time; we use current HEAD):
#   patch applies; full suite passes with it; demo fails with it; demo passes without it.
set -u; EXTRA=${EXTRA:-}
export GOFLAGS=-mod=mod GOPROXY=off GOSUMDB=off GOTOOLCHAIN=local
ID=$1; PKG=$2; PAT=$3; SRC=${4:-/tmp/seed/$ID-out}
WT=$(mktemp -d /tmp/sc.XXXXXX)
git -C /repo worktree add -q --detach $WT HEAD || exit 3
cd $WT
res=""
if git apply $SRC/patch.diff; then res="$res apply=ok"; else res="$res apply=FAIL"; fi
if go build ./... && go test -vet=off -count=1 -timeout 25m ./... >/tmp/sc.$ID.suite.log 2>&1; then res="$res suite_with_patch=pass"; else res="$res suite_with_patch=FAIL"; fi
cp $SRC/demo_test.go $WT/$PKG/zz_demo_test.go
if go test $EXTRA -vet=off -count=1 -run "$PAT" ./$PKG >/tmp/sc.$ID.demo1.log 2>&1; then res="$res demo_with_patch=PASS(bad)"; else res="$res demo_with_patch=fail(ok)"; fi
git apply -R $SRC/patch.diff
if go test $EXTRA -vet=off -count=1 -run "$PAT" ./$PKG >/tmp/sc.$ID.demo2.log 2>&1; then res="$res demo_without_patch=pass(ok)"; else res="$res demo_without_patch=FAIL(bad)"; fi
cd /
git -C /repo worktree remove --force $WT
echo "$ID:$res"
