#!/usr/bin/env python3
# Regenerates /verif/MANIFEST.json from properties.jsonl and the list of claimed properties.
import json,sys,re
props=[json.loads(l) for l in open('/verif/properties.jsonl')]
claimed=json.load(open('/verif/tools/claimed.json'))
checks=[]
for p in props:
    pid=p['id']
    if pid not in claimed['claimed']: continue
    c=claimed['claimed'][pid]
    checks.append({
      "property_id":pid,
      "quick_cmd":"/verif/bin/vpcheck run --prop %s --tier quick"%pid,
      "thorough_cmd":"/verif/bin/vpcheck run --prop %s --tier thorough"%pid,
      "evidence_file":"/verif/evidence/%s.json"%pid,
      "replay_cmd_template":"/verif/bin/vpcheck replay {path}",
      "engine":"symgo",
      "level_claimed":{"category":"model_checking","text":c['text'],"design_ref":"DESIGN.md §6 "+pid},
      "level_note":c.get('note',"Trusted: go/ssa (x/tools v0.29.0) as the semantics of the source, the symgo interpreter and its standard-library bridges, z3 5.1 (assertion queries cross-checked with z3 4.8.12, and cvc5 in the thorough tier). Every counterexample is replayed against the natively compiled code before it is reported; sampled completed paths are re-run natively and compared."),
      "technique":c.get('technique',"bounded symbolic execution of go/ssa with SMT-decided branches and assertions (z3), native replay of counterexamples")})
m={"version":1,
 "setup_cmd":"cd /verif/engine && GOFLAGS=-mod=mod GOPROXY=off GOSUMDB=off GOTOOLCHAIN=local go build -o /verif/bin/vpcheck ./cmd/vpcheck",
 "hooks":{"guard":"verif","enable":"none needed: harnesses are injected as in-package overlay files (go/packages Overlay for the engine, go test -overlay for native replay); nothing is written to /repo and /repo contains no hook code","baseline_off_cmd":"cd /repo && GOFLAGS=-mod=mod GOPROXY=off GOSUMDB=off GOTOOLCHAIN=local go test -vet=off -count=1 -timeout 25m ./...","source_commits":[],"add_only":True},
 "engines":[{"name":"symgo","path":"/verif/engine","serves_properties":sorted(claimed['claimed'].keys()),"kind_free_text":"symbolic interpreter for go/ssa (fork of x/tools go/ssa/interp): symbolic bit-vector/Boolean scalars over a concrete heap, forking by re-execution with a decision log, z3 5.1 / z3 4.8.12 / cvc5 back ends, bit-vector and integer printers, cooperative goroutine scheduler with a happens-before monitor, native replay through go test -overlay"}],
 "checks":checks,
 "not_applicable":[{"property_id":k,"reason":v} for k,v in claimed['not_applicable'].items()],
 "notes":"See DESIGN.md. Exit 0 = held on everything explored; exit 1 + VIOLATION line = confirmed violation; exit 2 = inconclusive / engine error (never on the registered bounds of the unchanged tree). Genuine defects found are listed in known_findings.json (fixed ones suppress nothing)."}
json.dump(m,open('/verif/MANIFEST.json','w'),indent=1)
print("claimed",len(checks),"not_applicable",len(m['not_applicable']))
