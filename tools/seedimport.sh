#!/bin/bash
# seedimport.sh <id> <property> <demo_pkg> <demo_pattern> "<needs>" : confirm a sub-agent's seeded change
# (tools/seedcheck.sh) and store it under /verif/seeded/<id>/ ; removes the agent's scratch worktree.
ID=$1; PROP=$2; PKG=$3; PAT=$4; NEEDS=$5
R=$(/verif/tools/seedcheck.sh $ID $PKG "$PAT" /tmp/seed/$ID-out)
echo "$R"
mkdir -p /verif/seeded/$ID
cp /tmp/seed/$ID-out/patch.diff /tmp/seed/$ID-out/demo_test.go /tmp/seed/$ID-out/notes.md /verif/seeded/$ID/ 2>/dev/null
python3 - "$ID" "$PROP" "$PKG" "$PAT" "$NEEDS" "$R" <<'PY'
import json,sys
id,prop,pkg,pat,needs,r=sys.argv[1:]
json.dump({"property":prop,"round":3,"needs":needs,"demo_pkg":pkg,"demo_run":pat,
 "source":"independent sub-agent (round 3), given only the property text, the list of functions earlier seeds changed, and a scratch worktree",
 "confirmed_by":"tools/seedcheck.sh: "+r,"detected_by":"(pending)"},open('/verif/seeded/%s/meta.json'%id,'w'),indent=1)
PY
git -C /repo worktree remove --force /tmp/seed/$ID 2>/dev/null
