#!/bin/bash
# runall.sh <tier> [ids...] : run the registered checks sequentially, report exit status and time.
TIER=${1:-quick}; shift
IDS=${@:-$(python3 -c "import json;print(' '.join(c['property_id'] for c in json.load(open('/verif/MANIFEST.json'))['checks']))")}
for id in $IDS; do
  s=$(date +%s)
  /verif/bin/vpcheck run --prop $id --tier $TIER > /tmp/runall.$id.$TIER.log 2>&1
  rc=$?
  e=$(date +%s)
  echo "$id $TIER exit=$rc $((e-s))s $(grep -c '^VIOLATION' /tmp/runall.$id.$TIER.log) viol $(grep -c '^INCONCLUSIVE' /tmp/runall.$id.$TIER.log) inconcl $(grep -c '^KNOWN-FINDING' /tmp/runall.$id.$TIER.log) kf"
done
