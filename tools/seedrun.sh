#!/bin/bash
# seedrun.sh <seed-id> <property> [tier] : apply the seeded change to /repo, run the check, undo.
ID=$1; PROP=$2; TIER=${3:-quick}
cd /repo || exit 3
if [ -n "$(git status --porcelain --untracked-files=no)" ]; then echo "repo dirty"; exit 3; fi
git apply /verif/seeded/$ID/patch.diff || exit 3
/verif/bin/vpcheck run --prop $PROP --tier $TIER > /tmp/seedrun.$ID.$PROP.log 2>&1
rc=$?
git checkout -- .
echo "seed=$ID prop=$PROP tier=$TIER exit=$rc $(grep -c '^VIOLATION' /tmp/seedrun.$ID.$PROP.log) violation lines; $(grep -c '^INCONCLUSIVE' /tmp/seedrun.$ID.$PROP.log) inconclusive"
cp /verif/evidence/$PROP.json /tmp/seedrun.$ID.$PROP.evidence.json 2>/dev/null
exit 0
