#!/bin/bash
# seedtry.sh <seed-id> <harness> <params> [fuel] : development helper. Applies the seeded
# change in a scratch worktree (VP_REPO), runs one harness without native replay, removes the worktree.
ID=$1; H=$2; P=$3; F=${4:-0}
WT=$(mktemp -d /tmp/sw.XXXXXX)
git -C /repo worktree add -q --detach $WT HEAD || exit 3
git -C $WT apply /verif/seeded/$ID/patch.diff || { git -C /repo worktree remove --force $WT; exit 3; }
VP_REPO=$WT timeout 1500 /verif/bin/vpcheck explore --harness $H --params "$P" --fuel $F 2>&1 | tail -${TAIL:-8}
git -C /repo worktree remove --force $WT
