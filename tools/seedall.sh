#!/bin/bash
# seedall.sh [ids...] : for every seeded change, apply it to /repo, run the registered quick check of its property, undo.
IDS=${@:-$(ls /verif/seeded | grep '^C')}
OUT=/verif/seeded/RESULTS.md
[ -f $OUT ] || echo "| seed | property check | exit | VIOLATION lines | first violation message |" > $OUT
for id in $IDS; do
  prop=$(python3 -c "import json;print(json.load(open('/verif/seeded/$id/meta.json'))['property'])")
  line=$(/verif/tools/seedrun.sh $id $prop quick)
  rc=$(echo "$line" | sed 's/.*exit=\([0-9]*\).*/\1/')
  nv=$(grep -c '^VIOLATION' /tmp/seedrun.$id.$prop.log)
  msg=$(grep -m1 -E '^  (violation|panic|race|deadlock|fuel)' /tmp/seedrun.$id.$prop.log | cut -c1-160 | tr '|' '/')
  echo "| $id | $prop quick | $rc | $nv | $msg |" >> $OUT
  echo "$line"
done
